//! C09 — NSEC3 denial of existence is sound, complete and iteration-bounded.
//!
//! Same shape as C08 with the genuine NSEC3 ring of the model zone (RFC 5155 §7.1; salts
//! {∅, 1, 8 octets}, iterations, Opt-Out): `verify_nsec3(..) == Secure` ⇒ the claim is true in the
//! zone (truth predicate of `refm::zonemodel`); a covering Opt-Out record may only support a
//! DS-absence claim; records of another zone or another parameter set mixed in ⇒ never Secure;
//! iterations above the soft limit ⇒ never Secure, above the hard limit ⇒ Bogus; and the proof
//! hickory's own server attaches is accepted (direct call and, sampled, `DnssecDnsHandle`).

use std::cell::RefCell;
use std::rc::Rc;

use hickory_net::dnssec::verif_hooks::verify_nsec3;
use hickory_proto::dnssec::rdata::NSEC3;
use hickory_proto::dnssec::Proof;
use hickory_proto::op::Query;
use hickory_proto::rr::Name;
use proptest::prelude::*;
use serde::{Deserialize, Serialize};

use super::c08::{
    claims_for, kinds_agree, parse_zone, pick_deviation, server_kind, shape_sig, triage, E2eVerdict, ServerKind,
    QTYPES4,
};
use crate::core::{enumerate, prop, CaseResult, Check, Env, Fail, Rec, Tier};
use crate::gen::zonebuild::{self as zb, abs_q, hk_nsec3, rtype, to_name, HkZone, NxKind};
use crate::gen::nzones::{self as zones, masks_for, MaskRng, ZText};
use crate::refm::canon;
use crate::refm::zonemodel::{
    is_wildcard_name, nsec3_hash, nsec3_ring, show, ty, wildcard_of, Claim, Exist, Nsec3Params, Nsec3Rec, Pos, Truth,
    Zone,
};

pub const NARROW_SIGS: [&str; 13] = [
    "nsec3-wraparound-record-covers-everything",
    "nsec3-apex-nodata-accepted-without-matching-record",
    "nsec3-ancestor-delegation-nsec3-accepted",
    "nsec3-optout-span-accepted-as-proof-of-nonexistence",
    "nsec3-optout-ds-branch-not-rfc5155-8-6",
    "nsec3-nodata-branches-ignore-answer-section",
    "nsec3-nxdomain-ignores-answer-section",
    "nsec3-foreign-zone-records-accepted-without-soa",
    "nsec3-chain-omits-asterisk-ent-below-apex",
    "nsec3-server-nxdomain-proof-lacks-wildcard-cover-for-ds",
    "server-nxdomain-when-wildcard-exists-without-type",
    "server-wildcard-synthesis-ignores-closest-encloser",
    "server-no-synthesis-for-asterisk-qname",
];

#[derive(Clone, Debug, PartialEq, Eq, Hash, Serialize, Deserialize)]
pub struct P3 {
    #[serde(with = "crate::core::hexser")]
    pub salt: Vec<u8>,
    pub iterations: u16,
    pub opt_out: bool,
}

impl P3 {
    pub fn model(&self) -> Nsec3Params {
        Nsec3Params {
            salt: self.salt.clone(),
            iterations: self.iterations,
            opt_out: self.opt_out,
        }
    }
    fn show(&self) -> String {
        format!(
            "salt={} iter={} optout={}",
            if self.salt.is_empty() { "-".into() } else { crate::core::hexser::to_hex(&self.salt) },
            self.iterations,
            self.opt_out
        )
    }
}

pub const SALT1: [u8; 1] = [0xAB];
pub const SALT8: [u8; 8] = [0x01, 0x23, 0x45, 0x67, 0x89, 0xAB, 0xCD, 0xEF];

fn salt_pick() -> impl Strategy<Value = Vec<u8>> {
    prop_oneof![Just(vec![]), Just(SALT1.to_vec()), Just(SALT8.to_vec())]
}

fn p3_small() -> impl Strategy<Value = P3> {
    (salt_pick(), prop_oneof![Just(0u16), Just(1u16), Just(5u16)], any::<bool>()).prop_map(|(salt, iterations, opt_out)| P3 {
        salt,
        iterations,
        opt_out,
    })
}

/// the parameter sets of the exhaustive sweep
fn enum_params() -> Vec<P3> {
    vec![
        P3 { salt: vec![], iterations: 0, opt_out: false },
        P3 { salt: SALT1.to_vec(), iterations: 1, opt_out: false },
        P3 { salt: vec![], iterations: 0, opt_out: true },
        P3 { salt: SALT8.to_vec(), iterations: 5, opt_out: true },
    ]
}

// ---------------------------------------------------------------------------------------------

pub struct Sound3 {
    pub zone: Zone,
    pub apex: Name,
    pub params: Nsec3Params,
    pub ring: Vec<Nsec3Rec>,
    pub hk: Vec<(Name, NSEC3)>,
}

type SoundKey = (ZText, P3);

thread_local! {
    static SOUND: RefCell<Vec<(SoundKey, Rc<Sound3>)>> = const { RefCell::new(Vec::new()) };
    static HK: RefCell<Option<(SoundKey, Rc<(Zone, HkZone)>)>> = const { RefCell::new(None) };
}

fn build_sound(z: &ZText, p: &P3) -> Result<Sound3, Fail> {
    let zone = parse_zone(z)?;
    let params = p.model();
    let ring = nsec3_ring(&zone, &params);
    let hk = ring.iter().map(|r| hk_nsec3(&zone.apex, &params, r)).collect();
    Ok(Sound3 {
        apex: to_name(&zone.apex),
        zone,
        params,
        ring,
        hk,
    })
}

fn sound_ctx(z: &ZText, p: &P3) -> Result<Rc<Sound3>, Fail> {
    SOUND.with(|c| {
        let mut c = c.borrow_mut();
        if let Some((_, v)) = c.iter().find(|(k, _)| k.0 == *z && k.1 == *p) {
            return Ok(v.clone());
        }
        let v = Rc::new(build_sound(z, p)?);
        if c.len() >= 4 {
            c.remove(0);
        }
        c.push(((z.clone(), p.clone()), v.clone()));
        Ok(v)
    })
}

fn hk_ctx(z: &ZText, p: &P3) -> Result<Rc<(Zone, HkZone)>, Fail> {
    HK.with(|c| {
        let mut c = c.borrow_mut();
        if let Some((k, v)) = c.as_ref() {
            if k.0 == *z && k.1 == *p {
                return Ok(v.clone());
            }
        }
        let zone = parse_zone(z)?;
        let hz = zb::build_hk_zone(&zone, &NxKind::Nsec3(p.model())).map_err(|e| Fail::new("harness-zone-build", e))?;
        let v = Rc::new((zone, hz));
        *c = Some(((z.clone(), p.clone()), v.clone()));
        Ok(v)
    })
}

fn render_rec(r: &Nsec3Rec) -> String {
    format!(
        "H({})={}.. -> {}.. ({}){}",
        show(&r.orig),
        &data_encoding::BASE32_DNSSEC.encode(&r.hash)[..6],
        &data_encoding::BASE32_DNSSEC.encode(&r.next_hash)[..6],
        r.types.iter().map(|t| ty::mnemonic(*t)).collect::<Vec<_>>().join(" "),
        if r.opt_out { " OPT-OUT" } else { "" }
    )
}

fn render_subset(ring: &[Nsec3Rec], mask: u32) -> String {
    ring.iter()
        .enumerate()
        .filter(|(i, _)| mask >> i & 1 == 1)
        .map(|(_, r)| render_rec(r))
        .collect::<Vec<_>>()
        .join("; ")
}

// ---------------------------------------------------------------------------------------------
// soundness + iteration limits

#[derive(Clone, Debug, Serialize, Deserialize)]
pub struct Sound3Case {
    pub zone: ZText,
    pub params: P3,
    pub q: ZText,
    pub qtypes: Vec<u16>,
    /// 0 = all non-empty subsets of the ring
    pub mask_seed: u64,
    pub soft: u16,
    pub hard: u16,
}

/// RFC 5155 §6 / §8.6: a covering Opt-Out NSEC3 "does not assert the existence or non-existence
/// of the insecure delegations that it may cover" — it can only support "there is no DS here".
/// Such a NODATA/DS verdict is acceptable when the zone really has no DS at the name and the name
/// is not at or below a *secure* delegation.
fn optout_ds_absence_ok(cx: &Sound3, q: &[Vec<u8>], qtype: u16, claim: Claim, truth: &Truth) -> bool {
    if !(cx.params.opt_out && qtype == ty::DS && claim == Claim::NoData) {
        return false;
    }
    match truth {
        // the name is not in the zone's tree: it may as well be an insecure delegation added
        // without re-signing (§6); whatever a wildcard would synthesise, "no DS" is what §8.6
        // lets the validator conclude
        Truth::NxDomain { .. } | Truth::WildAnswer { .. } => cx.zone.exist(q) == Exist::No,
        Truth::Referral { cut, at_cut: false } => !cx.zone.types_at(cut).contains(&ty::DS),
        _ => false,
    }
}

fn in_ring(cx: &Sound3, mask: u32, name: &[Vec<u8>]) -> bool {
    cx.ring
        .iter()
        .enumerate()
        .any(|(i, r)| mask >> i & 1 == 1 && canon::name_eq(&r.orig, name))
}

/// is `name`'s hash strictly inside the interval of a selected record (RFC 5155 §1.3 "cover")
fn covered_by(cx: &Sound3, mask: u32, name: &[Vec<u8>]) -> Option<usize> {
    let h = nsec3_hash(name, &cx.params.salt, cx.params.iterations);
    cx.ring.iter().enumerate().position(|(i, r)| {
        mask >> i & 1 == 1
            && if r.hash < r.next_hash {
                r.hash < h && h < r.next_hash
            } else {
                h > r.hash || h < r.next_hash
            }
    })
}

/// the proof elements RFC 5155 §8 asks for, read off a selection of ring records
struct Needs {
    /// alternatives; each alternative is a list of names that must be *covered*
    alternatives: Vec<Vec<Vec<Vec<u8>>>>,
}

/// longest proper ancestor of q (down to the apex) whose NSEC3 is selected
fn selected_encloser(cx: &Sound3, q: &[Vec<u8>], mask: u32) -> Option<Vec<Vec<u8>>> {
    if !canon::is_suffix(&cx.zone.apex, q) {
        return None;
    }
    (cx.zone.apex.len()..q.len())
        .rev()
        .map(|len| q[q.len() - len..].to_vec())
        .find(|anc| in_ring(cx, mask, anc))
}

fn needs_for(cx: &Sound3, q: &[Vec<u8>], qtype: u16, claim: Claim, mask: u32) -> Needs {
    let ce = selected_encloser(cx, q, mask);
    let nc = |ce: &Vec<Vec<u8>>| q[q.len() - ce.len() - 1..].to_vec();
    let mut alternatives = Vec::new();
    match claim {
        // §8.4: closest encloser proof + cover of the wildcard at the closest encloser
        Claim::NxDomain | Claim::NxWithWildAnswer { .. } => {
            if let Some(ce) = &ce {
                alternatives.push(vec![nc(ce), wildcard_of(ce)]);
            }
        }
        Claim::NoData => {
            if !in_ring(cx, mask, q) {
                // §8.6: DS, no matching record: Opt-Out cover
                if qtype == ty::DS && cx.params.opt_out {
                    alternatives.push(vec![q.to_vec()]);
                }
                // §8.7: wildcard NODATA: closest encloser proof + matching wildcard
                if let Some(ce) = &ce {
                    alternatives.push(vec![nc(ce)]);
                }
            }
        }
        // §8.8: cover of the next closer name below the wildcard's parent
        Claim::WildAnswer { labels } => {
            if (labels as usize) < q.len() {
                alternatives.push(vec![q[q.len() - labels as usize - 1..].to_vec()]);
            }
        }
    }
    Needs { alternatives }
}

/// hickory's `find_covering_record` takes the wrap-around branch for the record whose owner hash
/// is greater than its next hash and then accepts *every* target (`owner > t || t > next`). The
/// acceptance of `mask` rests on that when the wrap-around record is selected and every way to
/// the verdict needs a cover that no selected record really provides.
fn rests_on_false_wrap_cover(cx: &Sound3, q: &[Vec<u8>], qtype: u16, claim: Claim, mask: u32) -> bool {
    let Some(w) = cx.ring.iter().position(|r| r.hash > r.next_hash) else {
        return false;
    };
    if cx.ring.len() < 2 || mask >> w & 1 == 0 {
        return false;
    }
    let needs = needs_for(cx, q, qtype, claim, mask);
    !needs.alternatives.is_empty()
        && needs
            .alternatives
            .iter()
            .all(|alt| alt.iter().any(|n| covered_by(cx, mask, n).is_none()))
}

/// exists in the zone's tree but has no NSEC3 because the zone opts out (insecure delegation, or
/// empty non-terminal that only leads to insecure delegations — RFC 5155 §7.1)
fn hidden_by_optout(cx: &Sound3, name: &[Vec<u8>]) -> bool {
    cx.params.opt_out
        && cx.zone.exist(name) != Exist::No
        && !cx.ring.iter().any(|r| canon::name_eq(&r.orig, name))
}

fn classify_unsound(
    cx: &Sound3,
    q: &[Vec<u8>],
    qtype: u16,
    claim: Claim,
    truth: &Truth,
    soa: bool,
    mask: u32,
) -> String {
    let _ = (soa, &is_wildcard_name);
    let apex = &cx.zone.apex;
    if claim == Claim::NoData && canon::name_eq(q, apex) && !in_ring(cx, mask, apex) {
        // validate_nodata_response: "(None, None, None) if query name == SOA name => Secure"
        return "nsec3-apex-nodata-accepted-without-matching-record".into();
    }
    let q_matched = in_ring(cx, mask, q);
    let optout_ds_path = qtype == ty::DS && cx.params.opt_out && !q_matched && covered_by(cx, mask, q).is_some();
    if let Claim::WildAnswer { .. } = claim {
        // RFC 5155 §8.8: a wildcard answer needs a *cover* of the next closer name; hickory
        // first runs the NODATA branches (matching record without the type; DS + Opt-Out cover),
        // which return Secure without looking at the answer section
        if q_matched || optout_ds_path {
            return "nsec3-nodata-branches-ignore-answer-section".into();
        }
    }
    if rests_on_false_wrap_cover(cx, q, qtype, claim, mask) {
        return "nsec3-wraparound-record-covers-everything".into();
    }
    let claim = match (claim, truth) {
        // RCODE=NXDOMAIN with an answer section: validate_nxdomain_response never looks at it
        (Claim::NxWithWildAnswer { .. }, Truth::NxDomain { .. }) => {
            return "nsec3-nxdomain-ignores-answer-section".into()
        }
        (Claim::NxWithWildAnswer { .. }, _) => Claim::NxDomain,
        (c, _) => c,
    };
    // the name whose existence makes the claim false
    let witness: Option<Vec<Vec<u8>>> = match (claim, truth) {
        (_, Truth::Referral { cut, .. }) => Some(cut.clone()),
        (Claim::NxDomain | Claim::WildAnswer { .. }, Truth::NoData { .. } | Truth::Positive) => Some(q.to_vec()),
        (Claim::NxDomain, Truth::WildNoData { ce, .. } | Truth::WildAnswer { ce, .. }) => Some(wildcard_of(ce)),
        (Claim::WildAnswer { labels }, Truth::NxDomain { ce } | Truth::WildNoData { ce, .. } | Truth::WildAnswer { ce, .. })
            if ce.len() > labels as usize && (labels as usize) < q.len() =>
        {
            Some(q[q.len() - labels as usize - 1..].to_vec())
        }
        _ => None,
    };
    // RFC 5155 §6, §9.2: an Opt-Out span says nothing about what it spans; a closest encloser
    // proof whose covering record has the Opt-Out flag must not yield Secure (only §8.6 DS absence)
    // ... or the next closer name below the encloser the selection offers
    let hidden_next_closer = selected_encloser(cx, q, mask)
        .is_some_and(|e| e.len() < q.len() && hidden_by_optout(cx, &q[q.len() - e.len() - 1..]));
    if witness.as_ref().is_some_and(|w| hidden_by_optout(cx, w)) || hidden_next_closer {
        return "nsec3-optout-span-accepted-as-proof-of-nonexistence".into();
    }
    match (claim, truth) {
        // §8.6 asks for a closest provable encloser proof; hickory accepts "DS and qname covered
        // by an Opt-Out record" alone, also below a secure delegation
        (Claim::NoData, _) if optout_ds_path => "nsec3-optout-ds-branch-not-rfc5155-8-6".into(),
        // RFC 5155 §8.3 / RFC 6840 §4.1: an NSEC3 matching a delegation (NS without SOA) must
        // not serve as closest encloser nor as NODATA proof for anything but DS
        (_, Truth::Referral { cut, .. }) if in_ring(cx, mask, cut) => "nsec3-ancestor-delegation-nsec3-accepted".into(),
        _ => format!("nsec3-unsound-{}-when-{}", claim.kind(), truth.kind()),
    }
}

fn sound_body(c: &Sound3Case, rec: &mut Rec) -> CaseResult {
    let cx = sound_ctx(&c.zone, &c.params)?;
    let q = abs_q(&cx.zone, c.q.as_str());
    let qn = to_name(&q);
    let k = cx.ring.len();
    let masks: Vec<u32> = if c.mask_seed == 0 && k <= 10 {
        (1..(1u32 << k)).collect()
    } else {
        masks_for(k, c.mask_seed | 1, 40)
    };
    let over_hard = c.params.iterations > c.hard;
    let over_soft = c.params.iterations > c.soft;
    rec.class(zb::pos_class(&cx.zone, &q));
    rec.class(format!("ring-len-{}", k.min(12)));
    rec.class(format!(
        "salt{}-iter{}-{}",
        c.params.salt.len(),
        if over_hard {
            ">hard".to_string()
        } else if over_soft {
            ">soft".to_string()
        } else if c.params.iterations == c.soft {
            "=soft".to_string()
        } else {
            c.params.iterations.min(9).to_string()
        },
        if c.params.opt_out { "optout" } else { "plain" }
    ));
    let mut devs: Vec<Fail> = Vec::new();
    let (mut calls, mut secure, mut secure_true, mut insecure, mut optout_ds) = (0u64, 0u64, 0u64, 0u64, 0u64);
    for &qtype in &c.qtypes {
        let truth = cx.zone.truth(&q, qtype);
        rec.count(format!("truth/{}", truth.kind()), 1);
        let query = Query::new(qn.clone(), rtype(qtype));
        for cc in claims_for(&cx.zone, &q, &qn, &cx.apex, qtype) {
            let expected = cx.zone.claim_true(&q, qtype, cc.claim);
            let ds_ok = optout_ds_absence_ok(&cx, &q, qtype, cc.claim, &truth);
            for soa in [Some(&cx.apex), None] {
                let mut bad: Vec<u32> = Vec::new();
                let mut limit_dev: Option<(u32, Proof)> = None;
                for &mask in &masks {
                    let sel: Vec<(&Name, &NSEC3)> = cx
                        .hk
                        .iter()
                        .enumerate()
                        .filter(|(i, _)| mask >> i & 1 == 1)
                        .map(|(_, (n, d))| (n, d))
                        .collect();
                    let p = verify_nsec3(&query, soa, cc.rcode, &cc.answers, &sel, c.soft, c.hard);
                    calls += 1;
                    if over_hard {
                        // RFC 9276 §3.2 as configured: above the hard limit => Bogus
                        if p != Proof::Bogus && limit_dev.is_none() {
                            limit_dev = Some((mask, p));
                        }
                        continue;
                    }
                    if over_soft {
                        if p.is_secure() && limit_dev.is_none() {
                            limit_dev = Some((mask, p));
                        }
                        if p == Proof::Insecure {
                            insecure += 1;
                        }
                        continue;
                    }
                    if p.is_secure() {
                        secure += 1;
                        if expected {
                            secure_true += 1;
                        } else if ds_ok {
                            optout_ds += 1;
                        } else {
                            bad.push(mask);
                        }
                    }
                }
                if let Some((mask, p)) = limit_dev {
                    devs.push(Fail::new(
                        if over_hard { "nsec3-over-hard-limit-not-bogus" } else { "nsec3-over-soft-limit-secure" },
                        format!(
                            "zone [{}] {} limits soft={} hard={} query {} {} claim {:?}: verdict {:?} on {{{}}}",
                            cx.zone.render(),
                            c.params.show(),
                            c.soft,
                            c.hard,
                            qn,
                            ty::mnemonic(qtype),
                            cc.claim,
                            p,
                            render_subset(&cx.ring, mask)
                        ),
                    ));
                }
                if bad.is_empty() {
                    continue;
                }
                // one deviation per distinct signature, each with its smallest witness subset
                bad.sort_by_key(|m| m.count_ones());
                let mut seen: Vec<String> = Vec::new();
                for &mask in bad.iter().take(96) {
                    let sig = classify_unsound(&cx, &q, qtype, cc.claim, &truth, soa.is_some(), mask);
                    if seen.contains(&sig) {
                        continue;
                    }
                    seen.push(sig.clone());
                    devs.push(Fail::new(
                        sig,
                        format!(
                            "zone [{}] {} query {} {} claim {:?} soa={} accepted as Secure on {{{}}} but the truth is {}",
                            cx.zone.render(),
                            c.params.show(),
                            qn,
                            ty::mnemonic(qtype),
                            cc.claim,
                            soa.map(|n| n.to_string()).unwrap_or_else(|| "-".into()),
                            render_subset(&cx.ring, mask),
                            truth
                        ),
                    ));
                }
            }
        }
    }
    rec.count("verify_calls", calls);
    rec.count("secure_verdicts", secure);
    rec.count("secure_on_true_claim", secure_true);
    rec.count("secure_optout_ds_absence", optout_ds);
    rec.count("insecure_over_soft_limit", insecure);
    if !matches!(cx.zone.pos(&q), Pos::Out) {
        rec.nontrivial();
        if (secure > 0 || over_soft) && rec.wants_note() {
            rec.note(format!(
                "zone [{}] {} limits {}/{} q={} types={:?}: {} verify_nsec3 calls over {} subsets of a {}-record ring, {} Secure ({} on true claims, {} opt-out DS absence), {} Insecure",
                cx.zone.render(),
                c.params.show(),
                c.soft,
                c.hard,
                qn,
                c.qtypes,
                calls,
                masks.len(),
                k,
                secure,
                secure_true,
                optout_ds,
                insecure
            ));
        }
    }
    pick_deviation(devs, &NARROW_SIGS)
}

fn enum_cases(max_nodes: usize, stride: usize, offset: usize) -> Box<dyn Iterator<Item = Sound3Case> + Send> {
    let zl = zones::enum_zones(zones::APEX2, &zones::U2_NAMES, max_nodes);
    let qs: Vec<ZText> = zones::Q2_NAMES.iter().map(|s| ZText::new(s)).collect();
    let ps = enum_params();
    Box::new(
        zl.into_iter()
            .enumerate()
            .filter(move |(i, _)| i % stride == offset % stride)
            .flat_map(move |(_, z)| {
                let qs = qs.clone();
                ps.clone().into_iter().flat_map(move |p| {
                    let z = z.clone();
                    qs.clone().into_iter().map(move |q| Sound3Case {
                        zone: z.clone(),
                        params: p.clone(),
                        q,
                        qtypes: QTYPES4.to_vec(),
                        mask_seed: 0,
                        soft: 100,
                        hard: 500,
                    })
                })
            }),
    )
}

fn resolve(zone: &ZText, pick: &zones::QPick) -> ZText {
    let q = match Zone::parse(zone.as_str()) {
        Ok(z) => zones::resolve_q(pick, &zb::owners_rel(&z)),
        Err(_) => "@".into(),
    };
    ZText::new(&q)
}

fn sampled_sound(max_nodes: usize) -> impl Strategy<Value = Sound3Case> {
    (zones::zone_text(max_nodes), p3_small(), zones::qpick(), zones::qtype_pick(), 1u64..u64::MAX).prop_map(
        |(zone, params, pick, qtype, seed)| Sound3Case {
            q: resolve(&zone, &pick),
            zone,
            params,
            qtypes: vec![qtype],
            mask_seed: seed,
            soft: 100,
            hard: 500,
        },
    )
}

/// iteration counts around configured limits: {0, 1, 5, soft, soft+1, hard, hard+1}
fn sampled_limits() -> impl Strategy<Value = Sound3Case> {
    let limits = prop_oneof![
        3 => Just((0u16, 0u16)),
        3 => Just((0u16, 1u16)),
        3 => Just((1u16, 3u16)),
        3 => Just((5u16, 5u16)),
        3 => Just((5u16, 12u16)),
        3 => Just((12u16, 50u16)),
        1 => Just((100u16, 500u16)),
    ];
    (
        zones::zone_text(5),
        salt_pick(),
        any::<bool>(),
        limits,
        0usize..7,
        zones::qpick(),
        zones::qtype_pick(),
        1u64..u64::MAX,
    )
        .prop_map(|(zone, salt, opt_out, (soft, hard), which, pick, qtype, seed)| {
            let iterations = [0, 1, 5, soft, soft + 1, hard, hard + 1][which];
            Sound3Case {
                q: resolve(&zone, &pick),
                zone,
                params: P3 { salt, iterations, opt_out },
                qtypes: vec![qtype],
                mask_seed: seed,
                soft,
                hard,
            }
        })
}

// ---------------------------------------------------------------------------------------------
// mixtures with records of another parameter set / another zone

#[derive(Clone, Debug, Serialize, Deserialize)]
pub enum Foreign {
    /// the same zone signed with another salt and/or iteration count (a second, genuinely signed
    /// chain as during re-salting, RFC 5155 §10.2/§10.3)
    SameZoneOtherParams(P3),
    /// another zone (disjoint apex) with the given parameters (possibly identical ones)
    OtherZone { zone: ZText, params: P3 },
}

#[derive(Clone, Debug, Serialize, Deserialize)]
pub struct MixCase {
    pub zone: ZText,
    pub params: P3,
    pub foreign: Foreign,
    pub q: ZText,
    pub qtype: u16,
    pub seed: u64,
}

const FOREIGN_APEXES: [&str; 3] = ["other.", "ex2.test.", "y."];

/// apex selectors 0..3 = the disjoint apexes; 3 and 4 = a child / grandchild of the zone under test
/// (`a.<apex>`, `b.a.<apex>`: their NSEC3 owners are *below* the SOA name, the closest a foreign
/// record can get to looking like it belongs), 5 = the parent of the zone under test (if not the root).
/// Selectors >= 3 are written as a marker and resolved once the zone under test is known.
fn foreign_zone() -> impl Strategy<Value = ZText> {
    (zones::zone_text(5), prop_oneof![3 => 0usize..3, 3 => 3usize..5, 1 => Just(5usize)]).prop_map(|(z, a)| {
        let (_, rest) = z.as_str().split_once('|').unwrap();
        if a < 3 {
            ZText::new(&format!("{} |{}", FOREIGN_APEXES[a], rest))
        } else {
            ZText::new(&format!("rel{a}. |{rest}"))
        }
    })
}

/// resolve a relative foreign apex marker against the apex of the zone under test
fn resolve_foreign_apex(fz: &ZText, zone: &ZText) -> ZText {
    let (fa, rest) = fz.as_str().split_once('|').unwrap();
    let (za, _) = zone.as_str().split_once('|').unwrap();
    let za = za.trim();
    let apex = match fa.trim() {
        "rel3." => format!("a.{za}"),
        "rel4." => format!("b.a.{za}"),
        "rel5." => match za.split_once('.') {
            Some((_, parent)) if !parent.is_empty() => parent.to_string(),
            _ => "other.".to_string(),
        },
        other => other.to_string(),
    };
    ZText::new(&format!("{apex} |{rest}"))
}

fn sampled_mix() -> impl Strategy<Value = MixCase> {
    let foreign = prop_oneof![
        2 => p3_small().prop_map(Foreign::SameZoneOtherParams),
        3 => (foreign_zone(), p3_small(), any::<bool>()).prop_map(|(zone, params, same)| (zone, params, same))
            .prop_map(|(zone, params, same)| Foreign::OtherZone { zone, params: if same { P3 { salt: vec![0xFF], iterations: u16::MAX, opt_out: false } } else { params } }),
    ];
    (zones::zone_text(6), p3_small(), foreign, zones::qpick(), zones::qtype_pick(), 1u64..u64::MAX).prop_map(
        |(zone, params, foreign, pick, qtype, seed)| {
            // marker params (iterations = u16::MAX) mean "same parameters as the zone"
            let foreign = match foreign {
                Foreign::OtherZone { zone: fz, params: fp } if fp.iterations == u16::MAX => Foreign::OtherZone {
                    zone: fz,
                    params: params.clone(),
                },
                Foreign::SameZoneOtherParams(fp) if fp.salt == params.salt && fp.iterations == params.iterations => {
                    Foreign::SameZoneOtherParams(P3 {
                        salt: fp.salt,
                        iterations: fp.iterations + 2,
                        opt_out: fp.opt_out,
                    })
                }
                f => f,
            };
            let foreign = match foreign {
                Foreign::OtherZone { zone: fz, params: fp } => Foreign::OtherZone { zone: resolve_foreign_apex(&fz, &zone), params: fp },
                f => f,
            };
            MixCase {
                q: resolve(&zone, &pick),
                zone,
                params,
                foreign,
                qtype,
                seed,
            }
        },
    )
}

fn mix_body(c: &MixCase, rec: &mut Rec) -> CaseResult {
    let cx = sound_ctx(&c.zone, &c.params)?;
    let (fx, kind) = match &c.foreign {
        Foreign::SameZoneOtherParams(p) => (sound_ctx(&c.zone, p)?, "same-zone-other-params"),
        Foreign::OtherZone { zone, params } => {
            let (fa, _) = zone.as_str().split_once('|').unwrap();
            let (za, _) = c.zone.as_str().split_once('|').unwrap();
            let (fa, za) = (fa.trim(), za.trim());
            let rel = if fa.ends_with(&format!(".{za}")) {
                "child-zone"
            } else if za.ends_with(&format!(".{fa}")) {
                "parent-zone"
            } else {
                "other-zone"
            };
            (
                sound_ctx(zone, params)?,
                match (rel, *params == c.params) {
                    ("child-zone", true) => "child-zone-same-params",
                    ("child-zone", false) => "child-zone-other-params",
                    ("parent-zone", true) => "parent-zone-same-params",
                    ("parent-zone", false) => "parent-zone-other-params",
                    (_, true) => "other-zone-same-params",
                    (_, false) => "other-zone-other-params",
                },
            )
        }
    };
    rec.class(kind);
    let q = abs_q(&cx.zone, c.q.as_str());
    let qn = to_name(&q);
    rec.class(zb::pos_class(&cx.zone, &q));
    let (k, m) = (cx.ring.len(), fx.ring.len());
    let mut rng = MaskRng(c.seed);
    let mut devs = Vec::new();
    let (mut calls, mut secure, mut unused) = (0u64, 0u64, 0u64);
    let query = Query::new(qn.clone(), rtype(c.qtype));
    let truth = cx.zone.truth(&q, c.qtype);
    for cc in claims_for(&cx.zone, &q, &qn, &cx.apex, c.qtype) {
        for soa in [Some(&cx.apex), None] {
            let mut first: Option<(u32, u32)> = None;
            let same_zone = matches!(c.foreign, Foreign::SameZoneOtherParams(_));
            for round in 0..24 {
                // genuine part: may be empty for another zone's records (a set made only of
                // records of the same zone under other parameters is a consistent chain of that
                // zone and may legitimately be accepted); foreign part: never empty
                let mut gm = match round % 4 {
                    0 if !same_zone => 0,
                    1 => (1u32 << k) - 1,
                    _ => (rng.next() as u32) & ((1u32 << k) - 1),
                };
                if same_zone && gm == 0 {
                    gm = 1 << (rng.next() as usize % k);
                }
                let mut fm = (rng.next() as u32) & ((1u32 << m) - 1);
                if fm == 0 || round % 6 == 5 {
                    fm = (1u32 << m) - 1;
                }
                let foreign_first = rng.next() & 1 == 0;
                let g: Vec<(&Name, &NSEC3)> =
                    cx.hk.iter().enumerate().filter(|(i, _)| gm >> i & 1 == 1).map(|(_, (n, d))| (n, d)).collect();
                let f = fx.hk.iter().enumerate().filter(|(i, _)| fm >> i & 1 == 1).map(|(_, (n, d))| (n, d));
                let mut sel: Vec<(&Name, &NSEC3)> = Vec::new();
                if foreign_first {
                    sel.extend(f);
                    sel.extend(g.iter().copied());
                } else {
                    sel.extend(g.iter().copied());
                    sel.extend(f);
                }
                let p = verify_nsec3(&query, soa, cc.rcode, &cc.answers, &sel, 100, 500);
                calls += 1;
                if p.is_secure() {
                    secure += 1;
                    // metamorphic guard: the foreign records are load-bearing only if the genuine
                    // part alone is not accepted (unused extra records in a response are harmless)
                    let genuine_alone = !g.is_empty()
                        && verify_nsec3(&query, soa, cc.rcode, &cc.answers, &g, 100, 500).is_secure();
                    if genuine_alone && !same_zone {
                        unused += 1;
                        continue;
                    }
                    if first.is_none() {
                        first = Some((gm, fm));
                    }
                }
            }
            if let Some((gm, fm)) = first {
                let sig = match (&c.foreign, soa.is_some()) {
                    // verify_nsec3 ties the records to a zone only through the SOA name
                    (Foreign::OtherZone { .. }, false) => "nsec3-foreign-zone-records-accepted-without-soa".to_string(),
                    (Foreign::OtherZone { .. }, true) => "nsec3-foreign-zone-records-accepted-with-soa".to_string(),
                    (Foreign::SameZoneOtherParams(_), _) => "nsec3-mixed-parameter-sets-accepted".to_string(),
                };
                devs.push(Fail::new(
                    sig,
                    format!(
                        "zone [{}] {} query {} {} claim {:?} soa={} (truth {}): Secure on genuine {{{}}} + foreign ({kind}) {{{}}} from [{}] {}",
                        cx.zone.render(),
                        c.params.show(),
                        qn,
                        ty::mnemonic(c.qtype),
                        cc.claim,
                        soa.map(|n| n.to_string()).unwrap_or_else(|| "-".into()),
                        truth,
                        render_subset(&cx.ring, gm),
                        render_subset(&fx.ring, fm),
                        fx.zone.render(),
                        P3 { salt: fx.params.salt.clone(), iterations: fx.params.iterations, opt_out: fx.params.opt_out }.show(),
                    ),
                ));
            }
        }
    }
    rec.count("secure_with_unused_foreign_records", unused);
    rec.count("verify_calls", calls);
    rec.count("secure_verdicts", secure);
    rec.nontrivial();
    if rec.wants_note() {
        rec.note(format!(
            "zone [{}] {} + {} records of {kind} [{}]: q={} {}: {} calls, {} Secure",
            cx.zone.render(),
            c.params.show(),
            m,
            fx.zone.render(),
            qn,
            ty::mnemonic(c.qtype),
            calls,
            secure
        ));
    }
    pick_deviation(devs, &NARROW_SIGS)
}

// ---------------------------------------------------------------------------------------------
// completeness

#[derive(Clone, Debug, Serialize, Deserialize)]
pub struct Comp3Case {
    pub zone: ZText,
    pub params: P3,
    pub q: ZText,
    pub qtype: u16,
}

fn render_nsec3s(n: &[(Name, NSEC3)]) -> String {
    n.iter()
        .map(|(o, d)| {
            format!(
                "{} -> {} ({}){}",
                o,
                d.next_hashed_owner_name_base32().map(|l| l.to_string()).unwrap_or_default(),
                d.type_bit_maps().map(|t| t.to_string()).collect::<Vec<_>>().join(" "),
                if d.opt_out() { " OPT-OUT" } else { "" }
            )
        })
        .collect::<Vec<_>>()
        .join("; ")
}

/// hickory's actual ring as model records (original owner names recovered through the model
/// ring's hashes), hash order
pub fn hk_ring(zone: &Zone, p: &Nsec3Params, hz: &HkZone) -> Vec<Nsec3Rec> {
    let model = nsec3_ring(zone, p);
    let mut v: Vec<Nsec3Rec> = hz
        .chain_nsec3
        .iter()
        .filter_map(|(o, d)| {
            let label = o.iter().next()?.to_ascii_lowercase();
            let hash = data_encoding::BASE32_DNSSEC.decode(&label).ok()?;
            Some(Nsec3Rec {
                orig: model.iter().find(|m| m.hash == hash).map(|m| m.orig.clone()).unwrap_or_default(),
                hash,
                next_hash: d.next_hashed_owner_name().to_vec(),
                types: d.type_bit_maps().map(u16::from).collect(),
                opt_out: d.opt_out(),
            })
        })
        .collect();
    v.sort_by(|a, b| a.hash.cmp(&b.hash));
    v
}

/// is the (missing) NSEC3 of the empty non-terminal `*.<apex>` part of what a proof about q needs
fn star_ent_relevant(zone: &Zone, q: &[Vec<u8>], truth: &Truth) -> bool {
    let star = wildcard_of(&zone.apex);
    canon::is_suffix(&star, q)
        || matches!(truth, Truth::NxDomain { ce } | Truth::WildAnswer { ce, .. } | Truth::WildNoData { ce, .. }
            if canon::name_eq(ce, &zone.apex) || canon::name_eq(ce, &star))
}

/// RFC 5155 §7.2: which ring records a correct server attaches; `None` when the zone's Opt-Out
/// hides a name the answer hinges on (then no Secure proof exists by design)
fn required_proof(
    zone: &Zone,
    p: &Nsec3Params,
    ring: &[Nsec3Rec],
    q: &[Vec<u8>],
    truth: &Truth,
) -> Option<Vec<(&'static str, Vec<u8>)>> {
    let has = |n: &[Vec<u8>]| ring.iter().find(|r| canon::name_eq(&r.orig, n)).map(|r| r.hash.clone());
    let cover = |n: &[Vec<u8>]| {
        let h = nsec3_hash(n, &p.salt, p.iterations);
        ring.iter()
            .find(|r| {
                if r.hash < r.next_hash {
                    r.hash < h && h < r.next_hash
                } else {
                    ring.len() == 1 || h > r.hash || h < r.next_hash
                }
            })
            .map(|r| r.hash.clone())
    };
    let hidden = |n: &[Vec<u8>]| p.opt_out && zone.exist(n) != Exist::No && has(n).is_none();
    // closest provable encloser
    let pce = (zone.apex.len()..q.len()).rev().map(|len| q[q.len() - len..].to_vec()).find(|a| has(a).is_some());
    let nc = |e: &Vec<Vec<u8>>| q[q.len() - e.len() - 1..].to_vec();
    let mut out = Vec::new();
    match truth {
        Truth::NoData { at_cut: true, .. } if has(q).is_none() => {
            // §7.2.4: insecure delegation without NSEC3: closest provable encloser + Opt-Out cover
            let e = pce?;
            out.push(("closest-encloser-match", has(&e)?));
            out.push(("next-closer-cover", cover(&nc(&e))?));
        }
        Truth::NoData { .. } => {
            if hidden(q) {
                return None;
            }
            out.push(("qname-match", has(q)?));
        }
        Truth::NxDomain { ce } | Truth::WildNoData { ce, .. } | Truth::WildAnswer { ce, .. } => {
            let e = pce?;
            if e.len() != ce.len() || hidden(&wildcard_of(ce)) {
                return None;
            }
            match truth {
                Truth::NxDomain { .. } => {
                    out.push(("closest-encloser-match", has(&e)?));
                    out.push(("next-closer-cover", cover(&nc(&e))?));
                    out.push(("wildcard-cover", cover(&wildcard_of(&e))?));
                }
                Truth::WildNoData { .. } => {
                    out.push(("closest-encloser-match", has(&e)?));
                    out.push(("next-closer-cover", cover(&nc(&e))?));
                    out.push(("wildcard-match", has(&wildcard_of(&e))?));
                }
                _ => out.push(("next-closer-cover", cover(&nc(&e))?)),
            }
        }
        _ => return None,
    }
    Some(out)
}

fn classify_incomplete(
    zone: &Zone,
    p: &P3,
    hz: &HkZone,
    q: &[Vec<u8>],
    qtype: u16,
    truth: &Truth,
    parts: &zb::NegParts,
) -> String {
    let params = p.model();
    if hk_ring_lacks_star_ent(zone, &params, hz) && star_ent_relevant(zone, q, truth) {
        return "nsec3-chain-omits-asterisk-ent-below-apex".into();
    }
    let Some(req) = required_proof(zone, &params, &hk_ring(zone, &params, hz), q, truth) else {
        return format!("nsec3-incomplete-{}", truth.kind());
    };
    let attached = |h: &Vec<u8>| {
        let label = data_encoding::BASE32_DNSSEC.encode(h);
        parts
            .nsec3s
            .iter()
            .any(|(o, _)| o.iter().next().is_some_and(|l| l.eq_ignore_ascii_case(label.as_bytes())))
    };
    if let Some((what, _)) = req.iter().find(|(_, h)| !attached(h)) {
        // server side: a required record is not in the response
        return if *what == "wildcard-cover" && qtype == ty::DS {
            // InnerInMemory::proof: "else if qtype != RecordType::DS"
            "nsec3-server-nxdomain-proof-lacks-wildcard-cover-for-ds".into()
        } else {
            format!("nsec3-server-proof-lacks-{what}")
        };
    }
    // validator side: everything RFC 5155 §7.2 asks for was attached and still rejected
    match truth {
        Truth::NoData { at_cut: true, .. } if p.opt_out => "nsec3-optout-ds-branch-not-rfc5155-8-6".into(),
        t => format!("nsec3-incomplete-{}", t.kind()),
    }
}

struct CompEval {
    truth: Truth,
    parts: zb::NegParts,
    sk: ServerKind,
    agree: bool,
    direct: Option<Proof>,
}

fn comp_eval(zone: &Zone, hz: &HkZone, q: &[Vec<u8>], qn: &Name, qtype: u16) -> Result<Option<CompEval>, Fail> {
    let truth = zone.truth(q, qtype);
    if !truth.is_negative_or_wild() {
        return Ok(None);
    }
    let m = zb::ask(hz, qn, rtype(qtype)).map_err(|e| Fail::new("harness-ask", e))?;
    let parts = zb::split_response(&m);
    let sk = server_kind(&parts);
    let agree = kinds_agree(&truth, &sk);
    let sel: Vec<(&Name, &NSEC3)> = parts.nsec3s.iter().map(|(n, d)| (n, d)).collect();
    let direct = (!sel.is_empty()).then(|| {
        verify_nsec3(
            &Query::new(qn.clone(), rtype(qtype)),
            parts.soa_name.as_ref(),
            parts.rcode,
            &parts.answers,
            &sel,
            100,
            500,
        )
    });
    // names compare without regard to letter case (RFC 4343): the verdict must not change when
    // the SOA owner or the query name arrive in another spelling (a zone whose apex is configured
    // as `Example.` serves exactly that)
    if let (Some(d), Some(soa)) = (direct, parts.soa_name.as_ref()) {
        let upper = |n: &Name| Name::from_ascii(n.to_ascii().to_ascii_uppercase()).unwrap_or_else(|_| n.clone());
        let d_soa = verify_nsec3(&Query::new(qn.clone(), rtype(qtype)), Some(&upper(soa)), parts.rcode, &parts.answers, &sel, 100, 500);
        let d_q = verify_nsec3(&Query::new(upper(qn), rtype(qtype)), Some(soa), parts.rcode, &parts.answers, &sel, 100, 500);
        if d_soa != d || d_q != d {
            return Err(Fail::new(
                "nsec3-verdict-depends-on-letter-case",
                format!(
                    "zone [{}] query {qn} {}: verdict {d:?}; with the SOA owner in upper case {d_soa:?}; with the query name in upper case {d_q:?}",
                    zone.render(),
                    ty::mnemonic(qtype)
                ),
            ));
        }
    }
    Ok(Some(CompEval {
        truth,
        parts,
        sk,
        agree,
        direct,
    }))
}

fn comp_judge(
    zone: &Zone,
    p: &P3,
    hz: &HkZone,
    q: &[Vec<u8>],
    qtype: u16,
    ev: &CompEval,
    secure: bool,
    render: &dyn Fn() -> String,
) -> CaseResult {
    match (ev.agree, secure) {
        (true, true) => Ok(()),
        (true, false) if ev.parts.nsec3s.is_empty() => triage(Fail::new("nsec3-server-attached-no-nsec3", render())),
        (true, false) => triage(Fail::new(classify_incomplete(zone, p, hz, q, qtype, &ev.truth, &ev.parts), render())),
        (false, false) => triage(Fail::new(shape_sig(q, &ev.truth, &ev.sk), render())),
        (false, true) => {
            let claim = match ev.sk {
                ServerKind::NxDomain => Claim::NxDomain,
                ServerKind::NoData => Claim::NoData,
                ServerKind::WildAnswer(l) => Claim::WildAnswer { labels: l },
                _ => Claim::NoData,
            };
            let params = p.model();
            let ring = hk_ring(zone, &params, hz);
            let mut mask = 0u32;
            for (i, r) in ring.iter().enumerate() {
                let (o, _) = hk_nsec3(&zone.apex, &params, r);
                if ev.parts.nsec3s.iter().any(|(n, _)| *n == o) {
                    mask |= 1 << i;
                }
            }
            let scx = Sound3 {
                zone: zone.clone(),
                apex: to_name(&zone.apex),
                params,
                ring,
                hk: vec![],
            };
            if optout_ds_absence_ok(&scx, q, qtype, claim, &ev.truth) {
                return Ok(());
            }
            if hk_ring_lacks_star_ent(zone, &scx.params, hz) && star_ent_relevant(zone, q, &ev.truth) {
                // the validator is given a ring without the ENT that would contradict the claim
                return triage(Fail::new(
                    "nsec3-chain-omits-asterisk-ent-below-apex",
                    format!("{} although the claim is false in the zone", render()),
                ));
            }
            triage(Fail::new(
                classify_unsound(&scx, q, qtype, claim, &ev.truth, ev.parts.soa_name.is_some(), mask),
                format!("{} although the claim is false in the zone", render()),
            ))
        }
    }
}

fn comp_body(c: &Comp3Case, rec: &mut Rec) -> CaseResult {
    let cx = hk_ctx(&c.zone, &c.params)?;
    let (zone, hz) = (&cx.0, &cx.1);
    let q = abs_q(zone, c.q.as_str());
    let qn = to_name(&q);
    let Some(ev) = comp_eval(zone, hz, &q, &qn, c.qtype)? else {
        rec.discard(format!("truth-{}", zone.truth(&q, c.qtype).kind()));
        return Ok(());
    };
    if ev.agree && required_proof(zone, &c.params.model(), &nsec3_ring(zone, &c.params.model()), &q, &ev.truth).is_none() {
        // Opt-Out hides a name the answer hinges on: RFC 5155 §9.2 allows no Secure verdict
        rec.discard("optout-hides-a-name-the-answer-hinges-on");
        return Ok(());
    }
    rec.class(format!("truth-{}", ev.truth.kind()));
    rec.class(format!("attached-nsec3s-{}", ev.parts.nsec3s.len()));
    rec.class(if ev.agree { "server-shape-as-truth" } else { "server-shape-differs" });
    rec.class(if c.params.opt_out { "optout" } else { "plain" });
    rec.nontrivial();
    let render = || {
        format!(
            "zone [{}] {} query {} {} truth {}: server answered {:?} (soa={:?}) nsec3s {{{}}} -> verify_nsec3 = {:?}",
            zone.render(),
            c.params.show(),
            qn,
            ty::mnemonic(c.qtype),
            ev.truth,
            ev.sk,
            ev.parts.soa_name.as_ref().map(|n| n.to_string()),
            render_nsec3s(&ev.parts.nsec3s),
            ev.direct
        )
    };
    if rec.wants_note() {
        rec.note(render());
    }
    let secure = ev.direct.is_some_and(|p| p.is_secure());
    comp_judge(zone, &c.params, hz, &q, c.qtype, &ev, secure, &render)
}

fn e2e_body(c: &Comp3Case, rec: &mut Rec) -> CaseResult {
    let cx = hk_ctx(&c.zone, &c.params)?;
    let (zone, hz) = (&cx.0, &cx.1);
    let q = abs_q(zone, c.q.as_str());
    let qn = to_name(&q);
    let Some(ev) = comp_eval(zone, hz, &q, &qn, c.qtype)? else {
        rec.discard(format!("truth-{}", zone.truth(&q, c.qtype).kind()));
        return Ok(());
    };
    if ev.agree && required_proof(zone, &c.params.model(), &nsec3_ring(zone, &c.params.model()), &q, &ev.truth).is_none() {
        rec.discard("optout-hides-a-name-the-answer-hinges-on");
        return Ok(());
    }
    let v = super::c08::e2e_query(hz, &qn, c.qtype, Some((100, 500)))?;
    let e2e_secure = matches!(v, E2eVerdict::Accepted { all_secure: true, .. });
    let direct_secure = ev.direct.is_some_and(|p| p.is_secure());
    rec.class(format!("truth-{}", ev.truth.kind()));
    rec.class(if ev.agree { "server-shape-as-truth" } else { "server-shape-differs" });
    rec.class(format!(
        "e2e-{}",
        match &v {
            E2eVerdict::Accepted { all_secure: true, .. } => "secure",
            E2eVerdict::Accepted { .. } => "accepted-not-all-secure",
            E2eVerdict::NsecRejected(_) => "nsec-rejected",
            E2eVerdict::OtherError(_) => "other-error",
        }
    ));
    rec.nontrivial();
    let render = || {
        format!(
            "zone [{}] {} query {} {} truth {}: server answered {:?} nsec3s {{{}}}; direct verify_nsec3 = {:?}; DnssecDnsHandle = {:?}",
            zone.render(),
            c.params.show(),
            qn,
            ty::mnemonic(c.qtype),
            ev.truth,
            ev.sk,
            render_nsec3s(&ev.parts.nsec3s),
            ev.direct,
            v
        )
    };
    if rec.wants_note() {
        rec.note(render());
    }
    if let E2eVerdict::OtherError(e) = &v {
        return triage(Fail::new("nsec3-e2e-other-error", format!("{}: {e}", render())));
    }
    if e2e_secure != direct_secure {
        let sig = if e2e_secure { "nsec3-e2e-secure-but-direct-not" } else { "nsec3-e2e-rejects-what-direct-accepts" };
        return triage(Fail::new(sig, render()));
    }
    comp_judge(zone, &c.params, hz, &q, c.qtype, &ev, e2e_secure, &render)
}

/// "for every NSEC3-signed zone and query the server's own proof is accepted": also when there is
/// nothing to deny. A positive answer (the RRset, or a CNAME chain inside the zone) served by
/// hickory's own server must come out of the real validator as Secure, whatever else the server
/// chose to put into the authority section.
fn positive_e2e_body(c: &Comp3Case, rec: &mut Rec) -> CaseResult {
    let cx = hk_ctx(&c.zone, &c.params)?;
    let (zone, hz) = (&cx.0, &cx.1);
    let q = abs_q(zone, c.q.as_str());
    let qn = to_name(&q);
    let truth = zone.truth(&q, c.qtype);
    if !matches!(truth, Truth::Positive) {
        rec.discard(format!("truth-{}", truth.kind()));
        return Ok(());
    }
    let m = zb::ask(hz, &qn, rtype(c.qtype)).map_err(|e| Fail::new("harness-ask", e))?;
    let nsec3_in_authority = m.authorities.iter().filter(|r| r.record_type() == hickory_proto::rr::RecordType::NSEC3).count();
    rec.class(if nsec3_in_authority > 0 { "positive-answer:server-attached-nsec3" } else { "positive-answer:no-nsec3" });
    let v = super::c08::e2e_query(hz, &qn, c.qtype, Some((100, 500)))?;
    rec.nontrivial();
    let ok = matches!(v, E2eVerdict::Accepted { all_secure: true, answers, .. } if answers > 0);
    if !ok {
        return triage(Fail::new(
            if nsec3_in_authority > 0 { "nsec3-positive-answer-with-superfluous-nsec3-rejected" } else { "nsec3-positive-answer-rejected" },
            format!(
                "zone [{}] {} query {qn} {} (the RRset exists): server answered rcode {:?} with {} answer and {} authority records ({} NSEC3); DnssecDnsHandle = {v:?}",
                zone.render(),
                c.params.show(),
                ty::mnemonic(c.qtype),
                m.metadata.response_code,
                m.answers.len(),
                m.authorities.len(),
                nsec3_in_authority
            ),
        ));
    }
    Ok(())
}

/// the configured iteration limits reach the validation of a real response: the zone's iteration
/// count is 1 or 5, the limits are set just below it, at it, or left at the defaults
fn limits_e2e_body(c: &Comp3Case, rec: &mut Rec) -> CaseResult {
    let it = c.params.iterations;
    if it == 0 {
        rec.discard("zero-iterations-cannot-exceed-a-limit");
        return Ok(());
    }
    let cx = hk_ctx(&c.zone, &c.params)?;
    let (zone, hz) = (&cx.0, &cx.1);
    let q = abs_q(zone, c.q.as_str());
    let qn = to_name(&q);
    let truth = zone.truth(&q, c.qtype);
    if !truth.is_negative_or_wild() {
        rec.discard(format!("truth-{}", truth.kind()));
        return Ok(());
    }
    let mode = crate::core::fixed_hash(&[b"c09-limits-e2e", c.zone.as_str().as_bytes(), c.q.as_str().as_bytes(), &c.qtype.to_le_bytes()]) % 5;
    // what is handed to the builder, and the limits that are then in force (defaults 100 / 500)
    let (arg_soft, arg_hard, soft, hard) = match mode {
        0 => (Some(it - 1), Some(500), it - 1, 500),
        1 => (Some(it - 1), Some(it - 1), it - 1, it - 1),
        2 => (Some(it), Some(it), it, it),
        // only the hard limit is set, below the default soft limit
        3 => (None, Some(it - 1), 100, it - 1),
        // both set, the hard limit below the soft one
        _ => (Some(it + 7), Some(it - 1), it + 7, it - 1),
    };
    rec.class(match mode {
        0 => "limits:soft-below-iterations",
        1 => "limits:hard-below-iterations",
        2 => "limits:equal-to-iterations",
        3 => "limits:only-hard-set,below-iterations-and-below-default-soft",
        _ => "limits:hard-below-iterations-below-soft",
    });
    let configured = super::c08::e2e_query_opt(hz, &qn, c.qtype, Some((arg_soft, arg_hard)))?;
    let default = super::c08::e2e_query(hz, &qn, c.qtype, Some((100, 500)))?;
    let secure = |v: &E2eVerdict| matches!(v, E2eVerdict::Accepted { all_secure: true, .. });
    let render = || {
        format!(
            "zone [{}] {} query {qn} {} truth {truth}: nsec3_iteration_limits({arg_soft:?}, {arg_hard:?}) -> {configured:?}; defaults (100, 500) -> {default:?}",
            zone.render(),
            c.params.show(),
            ty::mnemonic(c.qtype)
        )
    };
    rec.class(if secure(&default) { "default-limits:secure" } else { "default-limits:not-secure" });
    if secure(&default) {
        rec.nontrivial();
        if rec.wants_note() {
            rec.note(render());
        }
    }
    if it > soft || it > hard {
        // RFC 9276 3.2 as configured: above the soft limit never Secure, above the hard limit an error
        vensure!(!secure(&configured), "nsec3-configured-iteration-limit-not-applied-end-to-end", "{}", render());
        if it > hard {
            vensure!(!matches!(configured, E2eVerdict::Accepted { .. }), "nsec3-configured-hard-limit-not-applied-end-to-end", "{}", render());
        }
    } else {
        vensure!(secure(&configured) == secure(&default), "nsec3-limits-at-the-iteration-count-change-the-verdict", "{}", render());
    }
    Ok(())
}

fn comp_enum_cases(max_nodes: usize) -> Box<dyn Iterator<Item = Comp3Case> + Send> {
    let zl = zones::enum_zones(zones::APEX2, &zones::U2_NAMES, max_nodes);
    let ps = enum_params();
    Box::new(zl.into_iter().flat_map(move |zt| {
        let zone = Zone::parse(zt.as_str()).expect("enumerated zones parse");
        let mut v = Vec::new();
        for p in &ps {
            for qs in zones::Q2_NAMES {
                let q = abs_q(&zone, qs);
                for t in QTYPES4 {
                    if zone.truth(&q, t).is_negative_or_wild() {
                        v.push(Comp3Case {
                            zone: zt.clone(),
                            params: p.clone(),
                            q: ZText::new(qs),
                            qtype: t,
                        });
                    }
                }
            }
        }
        v.into_iter()
    }))
}

fn sampled_comp(max_nodes: usize) -> impl Strategy<Value = Comp3Case> {
    (super::c08::sampled_comp(max_nodes), p3_small()).prop_map(|(c, params)| Comp3Case {
        zone: c.zone,
        params,
        q: c.q,
        qtype: c.qtype,
    })
}

// ---------------------------------------------------------------------------------------------
// the ring hickory generates = the ring RFC 5155 §7.1 prescribes (the property's state anchor)

#[derive(Clone, Debug, Serialize, Deserialize)]
pub struct Chain3Case {
    pub zone: ZText,
    pub params: P3,
}

/// does hickory's ring lack the NSEC3 of the empty non-terminal `*.<apex>` that the model has
pub fn hk_ring_lacks_star_ent(zone: &Zone, p: &Nsec3Params, hz: &HkZone) -> bool {
    let star = wildcard_of(&zone.apex);
    let ring = nsec3_ring(zone, p);
    ring.iter().any(|r| canon::name_eq(&r.orig, &star) && r.types.is_empty())
        && !hz
            .chain_nsec3
            .iter()
            .any(|(o, _)| *o == hk_nsec3(&zone.apex, p, ring.iter().find(|r| canon::name_eq(&r.orig, &star)).unwrap()).0)
}

fn chain_body(c: &Chain3Case, rec: &mut Rec) -> CaseResult {
    let cx = hk_ctx(&c.zone, &c.params)?;
    let (zone, hz) = (&cx.0, &cx.1);
    let params = c.params.model();
    let ring = nsec3_ring(zone, &params);
    rec.class(format!("ring-len-{}", ring.len().min(12)));
    rec.class(if c.params.opt_out { "optout" } else { "plain" });
    if ring.iter().any(|r| r.types.is_empty()) {
        rec.class("with-ent");
    }
    rec.nontrivial();
    let core = |t: &mut dyn Iterator<Item = u16>| -> Vec<u16> {
        let mut v: Vec<u16> = t.filter(|t| *t != ty::RRSIG).collect();
        v.sort_unstable();
        v
    };
    type Row = (String, String, Vec<u16>, bool, String);
    let want: Vec<Row> = ring
        .iter()
        .map(|r| {
            (
                data_encoding::BASE32_DNSSEC.encode(&r.hash),
                data_encoding::BASE32_DNSSEC.encode(&r.next_hash),
                core(&mut r.types.iter().copied()),
                r.opt_out,
                show(&r.orig),
            )
        })
        .collect();
    let mut got: Vec<Row> = hz
        .chain_nsec3
        .iter()
        .map(|(o, d)| {
            (
                String::from_utf8_lossy(o.iter().next().unwrap_or(b"")).to_ascii_lowercase(),
                data_encoding::BASE32_DNSSEC.encode(d.next_hashed_owner_name()),
                core(&mut d.type_bit_maps().map(u16::from)),
                d.opt_out(),
                String::new(),
            )
        })
        .collect();
    got.sort();
    if rec.wants_note() {
        rec.note(format!("zone [{}] {}: {} NSEC3 records", zone.render(), c.params.show(), got.len()));
    }
    let render = |v: &[Row]| {
        v.iter()
            .map(|(o, n, t, oo, orig)| {
                format!(
                    "{}{}.. -> {}.. ({}){}",
                    if orig.is_empty() { String::new() } else { format!("H({orig})=") },
                    &o[..6],
                    &n[..6],
                    t.iter().map(|t| ty::mnemonic(*t)).collect::<Vec<_>>().join(" "),
                    if *oo { " OPT-OUT" } else { "" }
                )
            })
            .collect::<Vec<_>>()
            .join("; ")
    };
    let msg = || format!("zone [{}] {}: expected {{{}}} got {{{}}}", zone.render(), c.params.show(), render(&want), render(&got));
    if hz.chain_nsec3.iter().any(|(_, d)| d.salt() != params.salt || d.iterations() != params.iterations) {
        return triage(Fail::new("nsec3-chain-parameters-differ", msg()));
    }
    let wo: Vec<&String> = want.iter().map(|r| &r.0).collect();
    let go: Vec<&String> = got.iter().map(|r| &r.0).collect();
    if wo != go {
        let missing: Vec<&Row> = want.iter().filter(|r| !go.contains(&&r.0)).collect();
        let extra = got.iter().filter(|r| !wo.contains(&&r.0)).count();
        let star = show(&wildcard_of(&zone.apex));
        // Name::num_labels() does not count a leading `*`, so the ENT walk in nsec3_zone stops
        // one level early exactly for `*.<apex>`
        let sig = if extra == 0 && missing.len() == 1 && missing[0].4 == star && missing[0].2.is_empty() {
            "nsec3-chain-omits-asterisk-ent-below-apex"
        } else {
            "nsec3-chain-owner-set-differs"
        };
        return triage(Fail::new(sig, msg()));
    }
    if want.iter().zip(&got).any(|(w, g)| w.1 != g.1) {
        return triage(Fail::new("nsec3-chain-next-hashes-differ", msg()));
    }
    if want.iter().zip(&got).any(|(w, g)| w.2 != g.2) {
        return triage(Fail::new("nsec3-chain-bitmaps-differ", msg()));
    }
    if want.iter().zip(&got).any(|(w, g)| w.3 != g.3) {
        return triage(Fail::new("nsec3-chain-optout-flags-differ", msg()));
    }
    Ok(())
}

// ---------------------------------------------------------------------------------------------

fn self_test() {
    // RFC 5155 Appendix A: salt aabbccdd, 12 iterations
    let salt = [0xaa, 0xbb, 0xcc, 0xdd];
    for (n, h) in [
        ("example", "0p9mhaveqvm6t7vbl5lop2u3t2rp3tom"),
        ("a.example", "35mthgpgcu1qg68fab165klnsnk3dpvl"),
        ("*.w.example", "r53bq7cc2uvmubfu5ocmm6pers9tk9en"),
        ("x.y.w.example", "2vptu5timamqttgl4luu9kg21e0aor3s"),
    ] {
        let got = data_encoding::BASE32_DNSSEC.encode(&nsec3_hash(&crate::refm::zonemodel::parse_name(n), &salt, 12));
        assert_eq!(got, h, "reference NSEC3 hash of {n} disagrees with RFC 5155 Appendix A");
    }
}

pub fn check() -> Option<Check> {
    self_test();
    // exhaustive sweep: depth-2 zones with <= N owners x 4 parameter sets x 32 query names x 4
    // types x every claim x SOA present/absent x all 2^k - 1 subsets of the ring (k <= 2N + 1)
    let sound_enum = enumerate(
        "sound_enum",
        |env: &Env| match env.tier {
            Tier::Quick => (enum_cases(1, 1, 0), true),
            Tier::Thorough => (enum_cases(2, 1, 0), true),
        },
        sound_body,
    );
    let sound_slice = enumerate(
        "sound_slice",
        |env: &Env| {
            let (n, stride) = match env.tier {
                Tier::Quick => (2usize, 5usize),
                Tier::Thorough => (3, 3),
            };
            let off = (env.seed % stride as u64) as usize;
            let it = enum_cases(n, stride, off).filter(move |c| c.zone.as_str().matches(':').count() == n);
            (Box::new(it) as Box<dyn Iterator<Item = Sound3Case> + Send>, false)
        },
        sound_body,
    );
    let sound_sampled = prop("sound_sampled", 16_000, 800_000, |_t: Tier| sampled_sound(7), sound_body);
    let limits = prop("iteration_limits", 16_000, 500_000, |_t: Tier| sampled_limits(), sound_body);
    let mix = prop("foreign_mix", 24_000, 800_000, |_t: Tier| sampled_mix(), mix_body);
    let chain_enum = enumerate(
        "chain_enum",
        |env: &Env| {
            let n = match env.tier {
                Tier::Quick => 2,
                Tier::Thorough => 3,
            };
            let ps = enum_params();
            (
                Box::new(zones::enum_zones(zones::APEX2, &zones::U2_NAMES, n).into_iter().flat_map(move |zone| {
                    ps.clone().into_iter().map(move |params| Chain3Case { zone: zone.clone(), params })
                })) as Box<dyn Iterator<Item = Chain3Case> + Send>,
                true,
            )
        },
        chain_body,
    );
    let chain_sampled = prop(
        "chain_sampled",
        5_000,
        200_000,
        |_t: Tier| (zones::zone_text(10), p3_small()).prop_map(|(zone, params)| Chain3Case { zone, params }),
        chain_body,
    );
    let comp_enum = enumerate(
        "complete_enum",
        |env: &Env| match env.tier {
            Tier::Quick => (comp_enum_cases(1), true),
            Tier::Thorough => (comp_enum_cases(3), true),
        },
        comp_body,
    );
    let comp_sampled = prop("complete_sampled", 12_000, 400_000, |_t: Tier| sampled_comp(8), comp_body);
    let comp_e2e = prop("complete_e2e", 5_000, 150_000, |_t: Tier| sampled_comp(6), e2e_body);
    let positive_e2e = prop("positive_e2e", 6_000, 150_000, |_t: Tier| (super::c08::sampled_positive(6), p3_small()).prop_map(|(c, params)| Comp3Case { zone: c.zone, params, q: c.q, qtype: c.qtype }), positive_e2e_body);
    let limits_e2e = prop("iteration_limits_e2e", 6_000, 150_000, |_t: Tier| sampled_comp(6), limits_e2e_body);
    Some(Check {
        id: "C09",
        level: "exploration",
        rule: "soundness case = (zone over labels {a,b,*} to depth 3 with hosts, CNAMEs, wildcards, empty non-terminals, delegations +/-DS, glue; NSEC3 parameters salt {0,1,8 octets} x iterations x Opt-Out; query name in or just outside the zone; query types) evaluated for every claim (NXDOMAIN, NODATA, each wildcard-expanded answer with a genuine RRSIG, NXDOMAIN+answer) x SOA name present/absent x every non-empty subset of the zone's genuine NSEC3 ring (all subsets for rings <= 6 records in sampled cases and <= 10 in enumerated ones, otherwise singletons, full, full-minus-one and 40 pseudo-random subsets); non-trivial when the query name is in the zone. sound_enum = exhaustive depth-2 sweep (quick <=1 owner, thorough <=2 owners; 4 parameter sets), sound_slice = 1/5 (quick) resp. 1/3 (thorough) slice of the next size. iteration_limits: iterations in {0,1,5,soft,soft+1,hard,hard+1} against configured (soft,hard): above hard every verdict must be Bogus, above soft none Secure. foreign_mix: subsets mixed with records of the same zone under other parameters (at least one of each) or of a disjoint zone (same or other parameters): never Secure unless the genuine part alone is. chain_*: hickory's generated ring = RFC 5155 7.1 ring of the model. Completeness case = (zone, parameters, query) with negative/wildcard truth answered by hickory's own NSEC3-signed zone, judged by verify_nsec3 (complete_enum, complete_sampled) and by DnssecDnsHandle (complete_e2e). positive_e2e: (zone, parameters, query) whose RRset exists, answered by hickory's own NSEC3-signed zone and validated by the real DnssecDnsHandle: must be Secure whatever the server put into the authority section. iteration_limits_e2e: the same responses through DnssecDnsHandle::nsec3_iteration_limits(soft, hard) with the limits just below / at the zone's iteration count (1 or 5): above soft never Secure, above hard an error, at the count the default verdict.",
        assumptions: vec![
            "truth predicate = refm::zonemodel (RFC 1034 4.3.2, RFC 4592, RFC 4035 3.1.4); NSEC3 ring per RFC 5155 7.1 with all records carrying the Opt-Out flag when the zone opts out and insecure delegations (and ENTs only leading to them) omitted; reference hash checked against RFC 5155 Appendix A at start-up",
            "a Secure NODATA/DS verdict resting on an Opt-Out cover is accepted when the zone has no DS there and the name is not at/below a secure delegation (RFC 5155 6, 8.6)",
            "completeness is not demanded where Opt-Out hides a name the answer hinges on (RFC 5155 9.2 allows no Secure verdict there); such cases are discarded and counted",
            "foreign zones are disjoint zones, child / grandchild zones (a.<apex>, b.a.<apex>) and the parent zone of the zone under test; SHA-1 collisions do not occur in the universe",
            "when the server's answer does not have the shape the truth predicts and the validator rejects it, the deviation is recorded under a server-* signature (root cause in the authoritative lookup, property C10)",
        ],
        subs: vec![
            sound_enum,
            sound_slice,
            sound_sampled,
            limits,
            mix,
            chain_enum,
            chain_sampled,
            comp_enum,
            comp_sampled,
            comp_e2e,
            positive_e2e,
            limits_e2e,
        ],
    })
}
