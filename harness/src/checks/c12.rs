//! C12 — Dynamic update applies RFC 2136 semantics and keeps the zone well-formed.
//!
//! Histories (≤ 6 UPDATE messages) from `gen::updates` are applied to a `SqliteZoneHandler`
//! (a) through the real path — request bytes signed per RFC 8945 by `tsig_ref`, decoded by
//! `Request::from_bytes`, dispatched to `ZoneHandler::update(req, now)` with the key configured,
//! an in-memory journal attached — and (b) directly through `verify_prerequisites` / `pre_scan` /
//! `update_records` for volume. `refm::update_ref` (RFC 2136 §3.2.5, §3.4.1.3, §3.4.2.7, RFC 1982)
//! runs in lock step. After every message:
//!   (i)   accepted ⇔ the model accepts (exact error code recorded, not asserted),
//!   (ii)  rejected ⇒ zone content and serial unchanged,
//!   (iii) accepted ⇒ content equals one of the outcomes RFC 2136 allows (SOA serial value aside),
//!   (iv)  exactly one SOA, ≥ 1 apex NS, no CNAME beside other data, no empty RRset visible,
//!         name existence (NXDOMAIN vs NODATA) as in the model,
//!   (v)   serial strictly greater (RFC 1982) ⇔ content changed, else unchanged.
//!
//! A deviation is first tested against the `Quirk` rules of `update_ref` (each one a deviating rule
//! of hickory = one root cause = one signature); only a deviation that one to three quirks
//! reproduce *exactly* gets that signature, the history then continues from the implementation's
//! state. Anything else fails immediately with a generic signature.

use std::collections::BTreeSet;

use futures_executor::block_on;
use hickory_server::zone_handler::AxfrPolicy;
use proptest::prelude::*;
use serde::{Deserialize, Serialize};

use crate::core::{panic_fail, prop, CaseResult, Check, Fail, Rec, Tier};
use crate::gen::update_driver::*;
use crate::gen::updates::{self, History};
use crate::refm::canon;
use crate::refm::update_ref::*;

#[derive(Clone, Debug, Serialize, Deserialize)]
pub struct Case {
    pub hist: History,
    /// message IDs / signing time base
    pub salt: u16,
    /// leave the empty RRset objects of the known finding `empty-rrset-left-after-delete-rr` in
    /// the implementation between messages (false: the harness clears them after each message so
    /// that the rest of the history runs from the RFC state)
    #[serde(default)]
    pub keep_ghosts: bool,
}

#[derive(Clone, Copy, PartialEq, Eq)]
pub enum Mode {
    Real,
    Direct,
}

pub struct Dev {
    pub sig: &'static str,
    pub msg: String,
}

fn diff(a: &Zone, b: &Zone) -> String {
    let (am, bm) = (a.masked(), b.masked());
    let mut s = String::new();
    for (k, t) in &am {
        if bm.get(k) != Some(t) {
            s.push_str(&format!("-[{} {} {} {}] ", canon::show(&k.0), t, type_name(k.1), show_rdata(k.1, &k.2)));
        }
    }
    for (k, t) in &bm {
        if am.get(k) != Some(t) {
            s.push_str(&format!("+[{} {} {} {}] ", canon::show(&k.0), t, type_name(k.1), show_rdata(k.1, &k.2)));
        }
    }
    s
}

/// compare what the implementation did with the acceptable outcomes; Ok(index of the matching one)
pub fn judge(outcomes: &[Outcome], applied: &Applied, before: &Zone, after: &Zone) -> Result<usize, Dev> {
    let acc = applied.accepted();
    let cands: Vec<(usize, &Outcome)> = outcomes.iter().enumerate().filter(|(_, o)| o.accept == acc).collect();
    if cands.is_empty() {
        let o = &outcomes[0];
        return Err(if acc {
            Dev {
                sig: "accepted-but-rfc2136-rejects",
                msg: format!("implementation answered {}, RFC 2136 gives rcode {}", applied.show(), o.rcode),
            }
        } else {
            Dev {
                sig: "rejected-but-rfc2136-accepts",
                msg: format!("implementation answered {}, RFC 2136 accepts", applied.show()),
            }
        });
    }
    if !acc {
        if after != before {
            return Err(Dev {
                sig: "rejected-but-zone-changed",
                msg: format!("answered {} yet the zone changed: {} (serial {:?} -> {:?})", applied.show(), diff(before, after), before.serial(), after.serial()),
            });
        }
        return Ok(cands[0].0);
    }
    let (sb, sa) = (before.serial(), after.serial());
    let am = after.masked();
    let mut best: Option<Dev> = None;
    for (i, o) in &cands {
        if o.zone.masked() != am {
            if best.is_none() {
                best = Some(Dev {
                    sig: "content-differs-from-rfc2136",
                    msg: format!("accepted; zone differs from the RFC 2136 result (- expected only, + actual only): {}", diff(&o.zone, after)),
                });
            }
            continue;
        }
        let (Some(sb), Some(sa)) = (sb, sa) else {
            return Err(Dev {
                sig: "zone-soa-count",
                msg: "no SOA serial readable before or after the message".into(),
            });
        };
        // the client may have set the serial itself (an SOA in the update section): the server's
        // own bump, if any, is judged from there (RFC 1982 "greater" is not transitive)
        let base = o.zone.serial().unwrap_or(sb);
        let advanced = if base != sb { sa == base || serial_gt(sa, base) } else { serial_gt(sa, sb) };
        // net effect: an add undone by a delete in the same message leaves the content as it was;
        // whether that counts as "changed" is left open (either serial behaviour is accepted)
        let net_changed = o.zone.masked() != before.masked() || base != sb;
        if o.changed && net_changed {
            if !advanced {
                best = Some(Dev {
                    sig: "content-changed-serial-not-advanced",
                    msg: format!("content changed ({}) but serial went {sb} -> {sa}", diff(before, after)),
                });
                continue;
            }
        } else if o.changed {
            if sa != sb && !advanced {
                best = Some(Dev {
                    sig: "serial-moved-backwards",
                    msg: format!("serial went {sb} -> {sa}"),
                });
                continue;
            }
        } else if sa != sb {
            best = Some(Dev {
                sig: "serial-changed-without-content-change",
                msg: format!("content unchanged but serial went {sb} -> {sa}"),
            });
            continue;
        }
        return Ok(*i);
    }
    Err(best.unwrap())
}

/// deviating rules that may be used to explain an observation: only those whose finding is still
/// recorded as `known` — once a defect is fixed in /repo its rule is no explanation any more, and a
/// regression shows up as an unexplained deviation
fn candidate_quirks() -> &'static Vec<Quirk> {
    static Q: std::sync::OnceLock<Vec<Quirk>> = std::sync::OnceLock::new();
    Q.get_or_init(|| {
        let known = crate::core::known_signatures("C12");
        ALL_QUIRKS.iter().copied().filter(|q| known.iter().any(|k| k == q.sig())).collect()
    })
}

fn subsets(max: usize) -> Vec<Quirks> {
    let cands = candidate_quirks();
    let n = cands.len();
    let mut v: Vec<Quirks> = Vec::new();
    for mask in 1u32..(1 << n) {
        if (mask.count_ones() as usize) <= max {
            v.push((0..n).filter(|i| mask & (1 << i) != 0).map(|i| cands[i]).collect());
        }
    }
    v.sort_by_key(|q| q.len());
    v
}

/// smallest set of known deviating rules that reproduces the observation exactly
pub fn explain(model: &Zone, msg: &UMsg, applied: &Applied, before: &Zone, after: &Zone) -> Option<Quirks> {
    explain_g(model, &BTreeSet::new(), msg, applied, before, after)
}

/// `explain` for an implementation that entered the message holding the empty RRset objects `ghosts`
pub fn explain_g(model: &Zone, ghosts: &BTreeSet<(Labels, u16)>, msg: &UMsg, applied: &Applied, before: &Zone, after: &Zone) -> Option<Quirks> {
    subsets(5).into_iter().find(|qs| judge(&step_g(model, ghosts, msg, qs).outcomes, applied, before, after).is_ok())
}

/// root cause that wrecks the zone so that the history cannot continue behind it: "delete all
/// RRsets at a name" on the apex removes SOA and NS (inverted origin test); the message is then
/// answered SERVFAIL or NOERROR depending on what else it carries. Returns the signature and the
/// prerequisite quirks needed for the message to get as far as the update section.
fn terminal_explanation(model: &Zone, msg: &UMsg, after: &Zone) -> Option<(&'static str, Quirks)> {
    let apex_wipe = msg.updates.iter().any(|r| r.class == C_ANY && r.rtype == T_ANY && model.is_apex(&r.name));
    // no further condition on the effect: once SOA and NS are gone, what the rest of the message and
    // the serial bump do (SERVFAIL with the zone left wiped, a panic, an SOA re-added from the update
    // section and bumped from *its* serial) follows from the wipe; called only for deviations that
    // no precise quirk reproduces
    let _ = after;
    if !apex_wipe {
        return None;
    }
    let pre: [Quirks; 4] = [
        Quirks::new(),
        [Quirk::PrereqSomeRrEqual].into_iter().collect(),
        [Quirk::PrereqViaLookup].into_iter().collect(),
        [Quirk::PrereqSomeRrEqual, Quirk::PrereqViaLookup].into_iter().collect(),
    ];
    pre.into_iter()
        .find(|qs| step(model, msg, qs).outcomes.iter().any(|o| o.accept))
        .map(|qs| ("delete-all-at-name-origin-test-inverted", qs))
}

fn serial_class(s: u32) -> &'static str {
    match s {
        0xffff_ffff => "serial=2^32-1",
        0xffff_fff0..=0xffff_fffe => "serial-near-2^32",
        0x7fff_fff0..=0x8000_0010 => "serial-near-2^31",
        0 => "serial=0",
        _ => "serial-small",
    }
}

/// resolve `full_prereq` against the zone the message meets: value-dependent prerequisites for
/// every RR of one or two of its RRsets, in the generated order
pub fn expand_full_prereq(msg: &UMsg, zone: &Zone) -> UMsg {
    let Some(fp) = &msg.full_prereq else { return msg.clone() };
    let mut sets: Vec<(Labels, u16)> = zone.rrs.keys().map(|k| (k.0.clone(), k.1)).collect();
    sets.dedup();
    if sets.is_empty() {
        return msg.clone();
    }
    let rrs_of = |i: u8| -> Vec<URr> {
        let (n, t) = &sets[i as usize % sets.len()];
        zone.rrset(n, *t)
            .into_keys()
            .map(|rd| URr { name: n.clone(), rtype: *t, class: zone.class, ttl: 0, rdata: rd })
            .collect()
    };
    let a = rrs_of(fp.first);
    let b = fp.second.filter(|s| *s as usize % sets.len() != fp.first as usize % sets.len()).map(rrs_of).unwrap_or_default();
    let mut pre: Vec<URr> = Vec::new();
    match fp.order % 4 {
        0 => {
            pre.extend(a);
            pre.extend(b);
        }
        2 => {
            let mid = a.len().div_ceil(2);
            pre.extend(a[..mid].iter().cloned());
            pre.extend(b);
            pre.extend(a[mid..].iter().cloned());
        }
        o => {
            let (mut ia, mut ib) = (a.into_iter(), b.into_iter());
            loop {
                let (x, y) = (ia.next(), ib.next());
                if x.is_none() && y.is_none() {
                    break;
                }
                pre.extend(x);
                pre.extend(y);
            }
            if o == 3 {
                pre.reverse();
            }
        }
    }
    UMsg { prereqs: pre, updates: msg.updates.clone(), full_prereq: None }
}

pub fn run_history(c: &Case, mode: Mode, rec: &mut Rec) -> CaseResult {
    let z0 = c.hist.init.build();
    let h = build_handler(&z0, AxfrPolicy::Deny).map_err(|e| Fail::new("harness-init", e))?;
    let key = test_key();
    let mut h = h;
    if mode == Mode::Real {
        h.set_tsig_signers(vec![hickory_signer(&key, 300)]);
        let j = memory_journal().map_err(|e| Fail::new("harness-init", e))?;
        block_on(h.set_journal(j));
        block_on(h.persist_to_journal()).map_err(|e| Fail::new("harness-init", e.to_string()))?;
    }
    let h = h;
    let first = snapshot(&h);
    vensure!(
        first.zone == z0 && first.ghosts.is_empty() && first.oddities.is_empty(),
        "harness-init-mismatch",
        "loaded zone differs from the model: {} {:?}",
        diff(&z0, &first.zone),
        first.oddities
    );
    let origin = z0.origin.clone();
    let mut model = z0.clone();
    let mut deferred: Vec<(&'static str, String)> = Vec::new();
    let mut touched: BTreeSet<(Labels, u16)> = BTreeSet::new();
    let (mut accepts, mut rejects) = (0u32, 0u32);
    let mut prereq_on_touched = false;
    let now0 = 1_700_000_000u64 + c.salt as u64;
    rec.class(format!("msgs={}", c.hist.msgs.len()));
    rec.class(serial_class(c.hist.init.serial));
    let mut executed = 0;

    'history: for (i, msg) in c.hist.msgs.iter().enumerate() {
        executed += 1;
        let expanded;
        let msg = if msg.full_prereq.is_some() {
            expanded = expand_full_prereq(msg, &model);
            rec.class(format!("full-rrset-prerequisite:{}-rrs", match expanded.prereqs.len() { 0 => "0", 1 => "1", 2 => "2", 3..=4 => "3-4", _ => "5+" }));
            if expanded.prereqs.windows(2).any(|w| w[0].name != w[1].name || w[0].rtype != w[1].rtype) && {
                let mut seen: Vec<(&Labels, u16)> = vec![];
                let mut interleaved = false;
                for r in &expanded.prereqs {
                    let k = (&r.name, r.rtype);
                    if seen.last() != Some(&k) {
                        if seen.contains(&k) {
                            interleaved = true;
                        }
                        seen.push(k);
                    }
                }
                interleaved
            } {
                rec.class("full-rrset-prerequisite:interleaved");
            }
            &expanded
        } else {
            msg
        };
        for r in &msg.prereqs {
            rec.class(updates::row_label(r, false));
            let n = canon::lower(&r.name);
            if touched.iter().any(|(tn, tt)| *tn == n && (r.rtype == T_ANY || *tt == r.rtype)) {
                prereq_on_touched = true;
            }
        }
        for r in &msg.updates {
            rec.class(updates::row_label(r, true));
        }
        let before = snapshot(&h);
        for r in &msg.prereqs {
            let n = canon::lower(&r.name);
            if before.ghosts.iter().any(|g| g.0 == n && (r.rtype == T_ANY || g.1 == r.rtype)) {
                rec.class("prereq-on-emptied-rrset-object");
            }
        }
        let applied = match mode {
            Mode::Real => apply_signed(&h, c.salt.wrapping_add(i as u16), &origin, msg, &key, now0 + i as u64),
            Mode::Direct => apply_direct(&h, msg),
        };
        if let Applied::Panic(m, l) = &applied {
            rec.class("panic");
            // the apex wipe (delete-all at the apex removes the SOA) followed by the serial bump
            let apex_wipe = msg.updates.iter().any(|r| r.class == C_ANY && r.rtype == T_ANY && model.is_apex(&r.name));
            if apex_wipe && m.contains("not an SOA record") {
                return Err(Fail::new(
                    "delete-all-at-name-origin-test-inverted",
                    format!("panic at {l}: {m} [message #{i}: {} on zone {{ {}}}]", msg.show(), model.show()),
                ));
            }
            let mut f = panic_fail(&(m.clone(), l.clone()));
            f.msg = format!("{} [message #{i}: {} on zone {{ {}}}]", f.msg, msg.show(), model.show());
            return Err(f);
        }
        let after = snapshot(&h);
        vensure!(after.oddities.is_empty(), "zone-rr-misfiled", "message #{i}: {:?}", after.oddities);
        let mut explained_now = false;
        let res = step(&model, msg, &Quirks::new());
        let model_rc = res.outcomes[0].rcode;
        let impl_rc = match &applied {
            Applied::Ok(_) => 0,
            Applied::Rcode(r) => *r,
            _ => RC_FORMERR,
        };
        if applied.accepted() {
            accepts += 1;
        } else {
            rejects += 1;
        }
        rec.class(format!("decided-at={}", res.stage));
        rec.class(if applied.accepted() { "impl=accept".to_string() } else { format!("impl=rcode{impl_rc}") });
        if !applied.accepted() && !res.outcomes[0].accept && impl_rc != model_rc {
            rec.class(format!("error-code-differs:impl{impl_rc}/rfc{model_rc}"));
        }
        if let Applied::Undecodable(_) = applied {
            rec.class("request-undecodable");
        }
        match judge(&res.outcomes, &applied, &before.zone, &after.zone) {
            Ok(idx) => {
                for b in &res.outcomes[idx].branches {
                    rec.class(format!("branch:{b}"));
                }
            }
            Err(dev) => {
                let ctx = format!("message #{i} {} on zone {{ {}}}: {}", msg.show(), model.show(), dev.msg);
                match explain_g(&model, &before.ghosts, msg, &applied, &before.zone, &after.zone) {
                    Some(qs) => {
                        if rec.strict {
                            return Err(Fail::new(qs.iter().next().unwrap().sig(), ctx));
                        }
                        for q in &qs {
                            rec.class(format!("finding:{}", q.sig()));
                            deferred.push((q.sig(), ctx.clone()));
                        }
                        explained_now = true;
                    }
                    None => {
                        let Some((sig, qs)) = terminal_explanation(&model, msg, &after.zone) else {
                            return Err(Fail::new(dev.sig, ctx));
                        };
                        rec.class(format!("finding:{sig}"));
                        if rec.strict {
                            return Err(Fail::new(sig, ctx));
                        }
                        deferred.push((sig, ctx.clone()));
                        for q in &qs {
                            rec.class(format!("finding:{}", q.sig()));
                            deferred.push((q.sig(), ctx.clone()));
                        }
                        rec.class("history-stopped:zone-wrecked-by-known-finding");
                        break 'history;
                    }
                }
            }
        }
        // (iv) invariants on what the implementation holds now
        if let Some((sig, m)) = invariant_violation(&after.zone) {
            if explained_now {
                // the broken invariant is the recorded finding itself (e.g. a second SOA)
                rec.class("history-stopped:zone-wrecked-by-known-finding");
                break 'history;
            }
            return Err(Fail::new(sig, format!("after message #{i} {}: {m}", msg.show())));
        }
        // (iv) name existence as a query sees it; empty RRset objects
        let mut ghost_seen = None;
        for (n, t) in &after.ghosts {
            if let Seen::Records(s) = lookup(&h, n, *t) {
                if s.is_empty() {
                    ghost_seen = Some(format!("query {} {} is answered with an empty RRset", canon::show(n), type_name(*t)));
                }
            }
        }
        let simple_zone = !after.zone.rrs.keys().any(|k| k.0.first().map(|l| l.as_slice()) == Some(b"*") || (k.1 == T_NS && k.0 != origin));
        if simple_zone {
            for n in updates::in_zone_names() {
                if !after.zone.rrset(&n, T_CNAME).is_empty() {
                    continue;
                }
                let exp = if after.zone.name_or_descendant_exists(&n) { Seen::NameExists } else { Seen::NxDomain };
                let got = lookup(&h, &n, T_AAAA);
                if got != exp {
                    let m = format!("after message #{i} {}: query {} AAAA sees {:?}, zone content implies {:?}", msg.show(), canon::show(&n), got, exp);
                    if after.ghosts.iter().any(|g| canon::is_suffix(&n, &g.0) || g.0.first().map(|l| l.as_slice()) == Some(b"*")) {
                        ghost_seen = Some(m);
                    } else {
                        return Err(Fail::new("name-existence-differs", m));
                    }
                }
            }
        }
        if let Some(m) = ghost_seen {
            let sig = Quirk::GhostRrset.sig();
            rec.class(format!("finding:{sig}"));
            let ctx = format!("message #{i} {} on zone {{ {}}}: {m}", msg.show(), model.show());
            if rec.strict {
                return Err(Fail::new(sig, ctx));
            }
            deferred.push((sig, ctx));
        }
        if !after.ghosts.is_empty() {
            if c.keep_ghosts {
                rec.class("ghosts-carried-into-next-message");
            } else {
                remove_ghosts(&h);
            }
        }
        // continue from the implementation's state (equal to the model's unless a finding was recorded)
        for k in before.zone.masked().keys().chain(after.zone.masked().keys()) {
            if before.zone.masked().get(k) != after.zone.masked().get(k) {
                touched.insert((k.0.clone(), k.1));
            }
        }
        model = after.zone.clone();
    }

    rec.class(format!("executed={executed}"));
    if c.hist.msgs.len() >= 2 && prereq_on_touched && accepts >= 1 && rejects >= 1 {
        rec.nontrivial();
        if rec.wants_note() {
            rec.note(updates::show_history(&c.hist));
        }
    }
    if let Some((sig, ctx)) = first_unknown_or_first(&deferred) {
        let all: Vec<&str> = deferred.iter().map(|d| d.0).collect();
        return Err(Fail::new(sig, format!("{ctx} [history continued; findings in this history: {all:?}]")));
    }
    Ok(())
}

/// prefer reporting a finding that is not yet listed as known, so that nothing hides behind a
/// known one in the same history
fn first_unknown_or_first(deferred: &[(&'static str, String)]) -> Option<(&'static str, String)> {
    let known = known_sigs("C12");
    deferred.iter().find(|s| !known.iter().any(|k| k == s.0)).or(deferred.first()).cloned()
}

pub fn known_sigs(prop: &str) -> Vec<String> {
    use std::sync::OnceLock;
    static ALL: OnceLock<Vec<(String, String)>> = OnceLock::new();
    let all = ALL.get_or_init(|| {
        let txt = std::fs::read_to_string(crate::core::vpath("known_findings.json")).unwrap_or_default();
        let v: serde_json::Value = serde_json::from_str(&txt).unwrap_or(serde_json::Value::Null);
        v["findings"]
            .as_array()
            .map(|a| {
                a.iter()
                    .filter(|f| f["status"] == "known")
                    .map(|f| (f["property"].as_str().unwrap_or("").to_string(), f["signature"].as_str().unwrap_or("").to_string()))
                    .collect()
            })
            .unwrap_or_default()
    });
    all.iter().filter(|(p, _)| p == prop).map(|(_, s)| s.clone()).collect()
}

fn case_strategy(tier: Tier) -> impl Strategy<Value = Case> {
    let _ = tier;
    (updates::history(6, true), any::<u16>(), any::<bool>()).prop_map(|(hist, salt, keep_ghosts)| Case { hist, salt, keep_ghosts })
}

pub fn check() -> Option<Check> {
    let real = prop("history_real_path", 40_000, 400_000, case_strategy, |c: &Case, rec: &mut Rec| run_history(c, Mode::Real, rec));
    let direct = prop("history_direct", 200_000, 2_000_000, case_strategy, |c: &Case, rec: &mut Rec| run_history(c, Mode::Direct, rec));
    Some(Check {
        id: "C12",
        level: "exploration",
        rule: "histories of 1..6 UPDATE messages (0..3 prerequisite RRs, 0..5 update RRs each) over 14 owner names (apex in two spellings, hosts, case variant, wildcard, child, delegation point and a name below it, 4 out-of-zone names) x class {zone, ANY, NONE, CH} x type {A, TXT, NS, CNAME, SOA, ANY, AXFR} x ttl {0, >0} x rdata {empty, 3 values per type; SOA serials near 2^31 and 2^32-1} against an initial zone of SOA + 1..2 NS + 0..7 RRs; two thirds of the prerequisite RRs of later messages are re-aimed at a name/RRset that an earlier message's update section touched; one later message in five replaces its prerequisite section by value-dependent prerequisites for every RR of one or two RRsets the zone holds at that moment (in sequence, alternating, nested or reversed); the type universe includes a private-use type above 255; ~7 % of the RRs carry one off-table edit (other class, TTL>0, RDATA against the row, AXFR/ANY type); in half of the histories the empty RRset objects of the known finding empty-rrset-left-after-delete-rr stay in the implementation between messages (prerequisites on them must still read 'no such RRset'), in the other half the harness clears them; applied through signed request bytes -> Request::from_bytes -> ZoneHandler::update with an in-memory journal (history_real_path) and through verify_prerequisites/pre_scan/update_records (history_direct). Non-trivial = distinct history AND >= 2 messages AND some prerequisite names an RRset/name changed by an earlier accepted message AND at least one accept and one reject",
        assumptions: vec![
            "where RFC 2136 text and pseudocode disagree (SOA add with equal serial; last NS of a non-apex NS RRset) either result is accepted; an SOA add whose serial is exactly 2^31 from the zone's (RFC 1982: undefined) must be ignored, since a replacement could not leave the serial advanced",
            "class = zone add with empty RDATA (not a row of table 3.4.2.6) may be refused or added literally",
            "the value of the SOA serial after an accepted update is the server's choice; only its RFC 1982 relation to the previous serial is asserted",
            "exact error codes are recorded (classes error-code-differs:*), not asserted",
            "DNSSEC signing is off (RRSIG/NSEC excluded by construction)",
        ],
        subs: vec![real, direct],
    })
}
