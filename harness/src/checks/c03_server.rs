//! C03, server clause: a response the server sends over UDP is never longer than
//! max(512, advertised payload), over TCP never longer than 65,535; it decodes with nothing left
//! over, echoes ID and question, and has TC set exactly when answer records were dropped.
//! Driven through the real front door (`VerifFrontDoor` -> `Catalog` -> `ResponseHandle`).

use std::net::SocketAddr;
use std::sync::Arc;

use futures_util::{FutureExt, StreamExt};
use hickory_net::runtime::TokioRuntimeProvider;
use hickory_net::xfer::{BufDnsStreamHandle, Protocol};
use hickory_proto::op::{Edns, Message, MessageType, OpCode, Query};
use hickory_proto::rr::rdata::{A, NS, SOA, TXT};
use hickory_proto::rr::{LowerName, Name, RData, Record, RecordType};
use hickory_proto::serialize::binary::{BinDecodable, BinDecoder};
use hickory_server::server::VerifFrontDoor;
use hickory_server::store::in_memory::InMemoryZoneHandler;
use hickory_server::zone_handler::{AxfrPolicy, Catalog, ZoneHandler, ZoneType};
use proptest::prelude::*;
use serde::{Deserialize, Serialize};

use crate::core::{prop, CaseResult, Rec, Sub};

#[derive(Clone, Debug, Serialize, Deserialize)]
struct Case {
    /// number of TXT records at big.<zone> and octets per record
    txt_count: u16,
    txt_len: u8,
    /// number of A records at many.<zone>
    a_count: u16,
    /// labels of the zone origin (long origins make every owner expensive)
    origin_labels: u8,
    qname_sel: u8,
    qtype_sel: u8,
    /// None = no EDNS; Some(p) = OPT with that payload size
    payload: Option<u16>,
    dnssec_ok: bool,
    tcp: bool,
    id: u16,
    mixed_case: bool,
    /// big.<zone> also holds a TXT record with one string of 300 octets: the zone-file parser and
    /// the record constructors accept it, the wire encoder cannot write it, and the server falls
    /// back to a bare SERVFAIL header
    #[serde(default)]
    unencodable: bool,
}

fn case() -> impl Strategy<Value = Case> {
    (
        prop_oneof![0u16..4, 4u16..40, 40u16..300],
        prop_oneof![Just(1u8), 1u8..=255, Just(255u8)],
        prop_oneof![0u16..4, 20u16..80, 80u16..1000],
        0u8..4,
        0u8..4,
        0u8..4,
        prop_oneof![
            3 => Just(None),
            6 => prop::sample::select(vec![0u16, 300, 511, 512, 513, 1232, 4096, 65_535]).prop_map(Some),
            2 => any::<u16>().prop_map(Some),
        ],
        any::<bool>(),
        prop::bool::weighted(0.3),
        any::<u16>(),
        (any::<bool>(), prop::bool::weighted(0.08)),
    )
        .prop_map(|(txt_count, txt_len, a_count, origin_labels, qname_sel, qtype_sel, payload, dnssec_ok, tcp, id, (mixed_case, unencodable))| Case {
            txt_count,
            txt_len,
            a_count,
            origin_labels,
            qname_sel,
            qtype_sel,
            payload,
            dnssec_ok,
            tcp,
            id,
            mixed_case,
            unencodable,
        })
}

fn origin(c: &Case) -> Name {
    let mut n = Name::root();
    n = n.append_label("test").unwrap();
    let mut out = Name::from_ascii("example.test.").unwrap();
    for i in 0..c.origin_labels {
        out = out.prepend_label(format!("lvl{i}-{}", "x".repeat(40))).unwrap();
    }
    let _ = n;
    out
}

fn build_zone(c: &Case) -> (Name, InMemoryZoneHandler<TokioRuntimeProvider>) {
    let origin = origin(c);
    let mut z = InMemoryZoneHandler::<TokioRuntimeProvider>::empty(origin.clone(), ZoneType::Primary, AxfrPolicy::Deny, None);
    let ns = Name::from_ascii("ns").unwrap().append_domain(&origin).unwrap();
    z.upsert_mut(
        Record::from_rdata(origin.clone(), 3600, RData::SOA(SOA::new(ns.clone(), Name::from_ascii("admin").unwrap().append_domain(&origin).unwrap(), 1, 7200, 3600, 360000, 60))),
        1,
    );
    z.upsert_mut(Record::from_rdata(origin.clone(), 3600, RData::NS(NS(ns.clone()))), 1);
    z.upsert_mut(Record::from_rdata(ns, 3600, RData::A(A::new(192, 0, 2, 53))), 1);
    let big = Name::from_ascii("big").unwrap().append_domain(&origin).unwrap();
    for i in 0..c.txt_count {
        let mut s = format!("{i:05}");
        while s.len() < c.txt_len as usize {
            s.push((b'a' + (s.len() % 26) as u8) as char);
        }
        s.truncate((c.txt_len as usize).max(5));
        z.upsert_mut(Record::from_rdata(big.clone(), 300, RData::TXT(TXT::new(vec![s]))), 1);
    }
    if c.unencodable {
        z.upsert_mut(Record::from_rdata(big.clone(), 300, RData::TXT(TXT::new(vec!["u".repeat(300)]))), 1);
    }
    let many = Name::from_ascii("many").unwrap().append_domain(&origin).unwrap();
    for i in 0..c.a_count {
        z.upsert_mut(Record::from_rdata(many.clone(), 300, RData::A(A::new(10, 1, (i >> 8) as u8, i as u8))), 1);
    }
    (origin, z)
}

fn body(c: &Case, rec: &mut Rec) -> CaseResult {
    let (origin, zone) = build_zone(c);
    let mut catalog = Catalog::new();
    catalog.upsert(LowerName::new(&origin), vec![Arc::new(zone) as Arc<dyn ZoneHandler>]);
    let door = VerifFrontDoor::new(catalog, vec![], vec![]);

    let (qlabel, expected): (&str, Option<u16>) = match c.qname_sel {
        0 => ("big", Some(c.txt_count)),
        1 => ("many", Some(c.a_count)),
        2 => ("", None),
        _ => ("nonexistent", None),
    };
    let mut qname = if qlabel.is_empty() { origin.clone() } else { Name::from_ascii(qlabel).unwrap().append_domain(&origin).unwrap() };
    if c.mixed_case {
        let s = qname.to_ascii();
        let flipped: String = s.chars().enumerate().map(|(i, ch)| if i % 2 == 0 { ch.to_ascii_uppercase() } else { ch }).collect();
        qname = Name::from_ascii(flipped).unwrap();
    }
    let qtype = match (c.qname_sel, c.qtype_sel) {
        (0, 0..=2) => RecordType::TXT,
        (1, 0..=2) => RecordType::A,
        (_, 3) => RecordType::ANY,
        (2, 0) => RecordType::SOA,
        (2, _) => RecordType::NS,
        _ => RecordType::A,
    };
    let mut req = Message::new(c.id, MessageType::Query, OpCode::Query);
    req.metadata.recursion_desired = true;
    req.add_query(Query::new(qname.clone(), qtype));
    if let Some(p) = c.payload {
        let mut e = Edns::new();
        e.set_max_payload(p); // clamps to ≥ 512 — the raw value is patched below
        e.set_dnssec_ok(c.dnssec_ok);
        req.set_edns(e);
    }
    let mut bytes = req.to_vec().map_err(|e| crate::core::Fail::new("harness", format!("request encode: {e}")))?;
    if let Some(p) = c.payload {
        // the OPT RR is last: owner(1) type(2) class(2) ttl(4) rdlen(2) [+ rdata]; patch CLASS with the raw payload
        if let Ok(sp) = crate::refm::wire_ref::split(&bytes) {
            if let Some(o) = sp.records.iter().find(|r| r.rtype == 41) {
                let at = o.start + 3;
                bytes[at..at + 2].copy_from_slice(&p.to_be_bytes());
            }
        }
    }
    let src: SocketAddr = "198.51.100.9:5300".parse().unwrap();
    let (handle, mut rx) = BufDnsStreamHandle::new(src);
    let proto = if c.tcp { Protocol::Tcp } else { Protocol::Udp };
    futures_executor::block_on(door.handle(bytes.clone(), src, proto, handle));
    let mut responses = Vec::new();
    while let Some(Some(m)) = rx.next().now_or_never() {
        responses.push(m);
    }
    vensure!(responses.len() == 1, "response-count", "{} responses to one query", responses.len());
    let (resp, dst) = responses.pop().unwrap().into_parts();
    vensure!(dst == src, "response-to-wrong-address", "{dst}");
    let limit = if c.tcp { 65_535usize } else { c.payload.map(|p| p.max(512) as usize).unwrap_or(512) };
    vensure!(
        resp.len() <= limit,
        "server-response-over-limit",
        "{} octets over {} (advertised payload {:?}) limit {limit}",
        resp.len(),
        if c.tcp { "tcp" } else { "udp" },
        c.payload
    );
    let mut dec = BinDecoder::new(&resp);
    let m = match Message::read(&mut dec) {
        Ok(m) => m,
        Err(e) => vfail!("server-response-does-not-decode", "{} octets: {e}", resp.len()),
    };
    vensure!(
        dec.is_empty(),
        "trailing-octets-after-truncation",
        "server response of {} octets (limit {limit}) decodes up to {} leaving {} octets",
        resp.len(),
        dec.index(),
        dec.len()
    );
    vensure!(m.metadata.id == c.id && m.metadata.message_type == MessageType::Response, "server-response-id-or-qr", "{:?}", m.metadata);
    if c.unencodable && m.metadata.response_code == hickory_proto::op::ResponseCode::ServFail && m.answers.is_empty() && m.authorities.is_empty() && m.additionals.is_empty() {
        // the encoder gave up on the record and the server sent its fallback: size, decodability and
        // "no octets left over" have been judged above; there is nothing else in it
        rec.class("servfail-fallback-after-unencodable-record");
        rec.nontrivial();
        return Ok(());
    }
    vensure!(
        m.queries.len() == 1 && crate::checks::codec_util::labels(&m.queries[0].name) == crate::checks::codec_util::labels(&qname) && m.queries[0].query_type == qtype,
        "server-response-question-not-echoed",
        "{:?}",
        m.queries
    );
    let mut overflow = false;
    if let (Some(n), false) = (expected, qtype == RecordType::ANY) {
        let got = m.answers.iter().filter(|r| r.record_type() == qtype).count();
        vensure!(got <= n as usize, "server-answer-invented", "{got} answers of {n}");
        let dropped = got < n as usize;
        vensure!(
            m.metadata.truncation == dropped || (!dropped && m.metadata.truncation),
            "tc-not-set-after-drop",
            "{got} of {n} answer records present, TC={}",
            m.metadata.truncation
        );
        overflow = dropped;
        rec.class(if dropped { "answer=truncated" } else { "answer=complete" });
    }
    rec.class(if c.tcp { "tcp" } else { "udp" });
    rec.class(match c.payload {
        None => "payload=none",
        Some(0..=511) => "payload<512",
        Some(512) => "payload=512",
        Some(513..=4096) => "payload=513..4096",
        Some(_) => "payload>4096",
    });
    if overflow || resp.len() > 512 {
        rec.nontrivial();
        if rec.wants_note() {
            rec.note(format!(
                "zone {} txt {}x{} a {}; query {} {} over {} payload {:?} -> {} octets, {} answers, TC={}",
                origin,
                c.txt_count,
                c.txt_len,
                c.a_count,
                qname,
                qtype,
                if c.tcp { "tcp" } else { "udp" },
                c.payload,
                resp.len(),
                m.answers.len(),
                m.metadata.truncation
            ));
        }
    }
    Ok(())
}

pub fn subs() -> Vec<Box<dyn Sub>> {
    vec![prop("server_limits", 3_000, 150_000, |_| case(), body)]
}
