//! C20 — Zone files load to exactly the records they denote.
//!
//! `exact_load`: record sets rendered by the independent RFC 1035 §5 printer
//! (`refm::zonefile_printer`) with per-line random layout must load, through
//! `Parser::new(text, None, Some(origin)).parse()`, to exactly the records the file denotes.
//! `decimal_escapes`: RFC 1035 §5.1 `\DDD` (decimal) inside quoted strings, unquoted strings and
//! names — a freedom of the RFC syntax the statement does not list by name; kept apart so its
//! verdicts can be read separately.
//! `garbage`: malformed text of any kind yields `Ok` or `Err`, never a panic, never a hang
//! (5 s budget for texts of at most 64 KB).

use std::collections::BTreeSet;
use std::time::Duration;

use hickory_proto::dnssec::rdata::DNSSECRData;
use hickory_proto::rr::rdata::svcb::{SvcParamKey, SvcParamValue};
use hickory_proto::rr::{DNSClass, Name, RData, Record};
use hickory_proto::serialize::txt::Parser;
use proptest::prelude::*;
use serde::{Deserialize, Serialize};

use crate::core::{catch, prop, prop_hang, CaseResult, Check, Fail, Rec, Tier};
use crate::gen::zonefile as zgen;
use crate::refm::zonefile_printer::{self as zp, Blob, Feature, Features, Flat, Labels, SvcParam, ZData, ZoneFile};

// ---------------------------------------------------------------------------------------------
// hickory value -> model

fn labels_of(n: &Name) -> Labels {
    n.iter().map(|l| String::from_utf8_lossy(l).to_ascii_lowercase()).collect()
}

fn to_abs(labels: &Labels) -> Name {
    let mut n = Name::from_labels(labels.iter().map(|l| l.as_bytes())).expect("generator stays within name limits");
    n.set_fqdn(true);
    n
}

fn s(b: &[u8]) -> String {
    // printable ASCII survives unchanged; anything else becomes visible as an escape
    b.iter().map(|c| if (0x20..=0x7e).contains(c) { (*c as char).to_string() } else { format!("\\x{c:02x}") }).collect()
}

/// None = RDATA of a type the model does not know (reported as a mismatch by the caller).
/// `relative` is set when an embedded domain name is not fully qualified.
fn data_of(d: &RData, relative: &mut bool) -> Option<ZData> {
    let mut nm = |n: &Name| -> Labels {
        if !n.is_fqdn() {
            *relative = true;
        }
        labels_of(n)
    };
    Some(match d {
        RData::A(a) => ZData::A(a.0.octets()),
        RData::AAAA(a) => ZData::Aaaa(a.0.segments()),
        RData::NS(n) => ZData::Ns(nm(&n.0)),
        RData::CNAME(n) => ZData::Cname(nm(&n.0)),
        RData::PTR(n) => ZData::Ptr(nm(&n.0)),
        RData::ANAME(n) => ZData::Aname(nm(&n.0)),
        RData::MX(m) => ZData::Mx { pref: m.preference, exch: nm(&m.exchange) },
        RData::SOA(x) => ZData::Soa {
            mname: nm(&x.mname),
            rname: nm(&x.rname),
            serial: x.serial,
            refresh: x.refresh as u32,
            retry: x.retry as u32,
            expire: x.expire as u32,
            minimum: x.minimum,
        },
        RData::TXT(t) => ZData::Txt(t.txt_data.iter().map(|b| s(b)).collect()),
        RData::HINFO(h) => ZData::Hinfo { cpu: s(&h.cpu), os: s(&h.os) },
        RData::SRV(x) => ZData::Srv { prio: x.priority, weight: x.weight, port: x.port, target: nm(&x.target) },
        RData::CAA(c) => ZData::Caa { flags: c.flags(), tag: c.tag.clone(), value: s(&c.value) },
        RData::NAPTR(n) => ZData::Naptr {
            order: n.order,
            pref: n.preference,
            flags: s(&n.flags),
            services: s(&n.services),
            regexp: s(&n.regexp),
            replacement: nm(&n.replacement),
        },
        RData::TLSA(t) => ZData::Tlsa { usage: t.cert_usage.into(), selector: t.selector.into(), matching: t.matching.into(), data: Blob(t.cert_data.clone()) },
        RData::SMIMEA(t) => ZData::Smimea { usage: t.cert_usage.into(), selector: t.selector.into(), matching: t.matching.into(), data: Blob(t.cert_data.clone()) },
        RData::SSHFP(x) => ZData::Sshfp { alg: x.algorithm.into(), fptype: x.fingerprint_type.into(), fp: Blob(x.fingerprint.clone()) },
        RData::DNSSEC(DNSSECRData::DS(ds)) => ZData::Ds { tag: ds.key_tag(), alg: ds.algorithm().into(), dtype: ds.digest_type().into(), digest: Blob(ds.digest().to_vec()) },
        RData::CERT(c) => ZData::Cert { ctype: c.cert_type.into(), tag: c.key_tag, alg: c.algorithm.into(), data: Blob(c.cert_data.clone()) },
        RData::OPENPGPKEY(k) => ZData::Openpgpkey(Blob(k.public_key.clone())),
        RData::CSYNC(c) => {
            let mut types: Vec<u16> = c.type_bit_maps.iter().map(u16::from).collect();
            types.sort_unstable();
            ZData::Csync { serial: c.soa_serial, flags: c.flags(), types }
        }
        RData::SVCB(x) => svcb_of(false, x, &mut nm)?,
        RData::HTTPS(x) => svcb_of(true, &x.0, &mut nm)?,
        _ => return None,
    })
}

fn svcb_of(https: bool, x: &hickory_proto::rr::rdata::SVCB, nm: &mut impl FnMut(&Name) -> Labels) -> Option<ZData> {
    let mut params = Vec::new();
    for (k, v) in &x.svc_params {
        let p = match (k, v) {
            (SvcParamKey::Alpn, SvcParamValue::Alpn(a)) => SvcParam::Alpn(a.0.clone()),
            (SvcParamKey::NoDefaultAlpn, SvcParamValue::NoDefaultAlpn) => SvcParam::NoDefaultAlpn,
            (SvcParamKey::Port, SvcParamValue::Port(p)) => SvcParam::Port(*p),
            (SvcParamKey::Ipv4Hint, SvcParamValue::Ipv4Hint(h)) => SvcParam::V4Hint(h.0.iter().map(|a| a.0.octets()).collect()),
            (SvcParamKey::Ipv6Hint, SvcParamValue::Ipv6Hint(h)) => SvcParam::V6Hint(h.0.iter().map(|a| a.0.segments()).collect()),
            _ => return None,
        };
        params.push(p);
    }
    Some(ZData::Svcb { https, prio: x.svc_priority, target: nm(&x.target_name), params })
}

struct Loaded {
    flats: Vec<Flat>,
    /// problems that make the loaded data unusable as "records" at all
    notes: Vec<String>,
}

fn flatten(map: &std::collections::BTreeMap<hickory_proto::rr::RrKey, hickory_proto::rr::RecordSet>) -> Loaded {
    let mut flats = Vec::new();
    let mut notes = Vec::new();
    for (key, set) in map {
        for r in set.records_without_rrsigs() {
            let r: &Record = r;
            if !r.name.is_fqdn() {
                notes.push(format!("owner {} is not fully qualified", r.name));
            }
            if labels_of(&r.name) != labels_of(&Name::from(key.name.clone())) || r.record_type() != key.record_type {
                notes.push(format!("record {} {} filed under key {} {}", r.name, r.record_type(), key.name, key.record_type));
            }
            let mut relative = false;
            let data = data_of(&r.data, &mut relative);
            if relative {
                notes.push(format!("{} {}: a domain name inside the RDATA is not fully qualified: {}", r.name, r.record_type(), r.data));
            }
            match data {
                Some(data) => flats.push(Flat {
                    owner: labels_of(&r.name),
                    class: match r.dns_class {
                        DNSClass::IN => "IN".to_string(),
                        c => format!("{c:?}"),
                    },
                    rtype: data.type_mnemonic().to_string(),
                    ttl: r.ttl,
                    data,
                }),
                None => notes.push(format!("{} {}: RDATA outside the model: {}", r.name, r.record_type(), r.data)),
            }
        }
    }
    flats.sort();
    Loaded { flats, notes }
}

#[derive(Debug)]
enum Outcome {
    Match,
    Panic((String, String)),
    Err(String),
    Differs(String),
}

fn load_and_compare(text: &str, origin: &Labels, expected: &[Flat]) -> Outcome {
    let origin_name = to_abs(origin);
    let r = catch(|| Parser::new(text, None, Some(origin_name)).parse());
    let parsed = match r {
        Err(p) => return Outcome::Panic(p),
        Ok(Err(e)) => return Outcome::Err(e.to_string()),
        Ok(Ok((_o, map))) => map,
    };
    let loaded = flatten(&parsed);
    if !loaded.notes.is_empty() {
        return Outcome::Differs(loaded.notes.join("; "));
    }
    if loaded.flats == expected {
        return Outcome::Match;
    }
    let exp: BTreeSet<&Flat> = expected.iter().collect();
    let got: BTreeSet<&Flat> = loaded.flats.iter().collect();
    let missing: Vec<String> = exp.difference(&got).take(2).map(|f| format!("{f:?}")).collect();
    let extra: Vec<String> = got.difference(&exp).take(2).map(|f| format!("{f:?}")).collect();
    Outcome::Differs(format!("denoted but not loaded: [{}]; loaded but not denoted: [{}]", missing.join(", "), extra.join(", ")))
}

fn is_lexer_limit_panic(p: &(String, String)) -> bool {
    p.1.contains("zone_lex.rs") && p.0.contains("i < 4095")
}

/// Layout features that (by DESIGN §10 items 13/14 or by triage of this check) hickory mishandles.
/// Each has its own signature; a failing case is attributed to one of them only if the failure
/// disappears when all of them are avoided and persists when just that one is used.
const SUSPECTS: &[(Feature, &str)] = &[
    (Feature::LongComment, "lexer-4095-iteration-assert"),
    (Feature::LongBlankRun, "lexer-4095-iteration-assert"),
    (Feature::QuotedStringInsideParens, "quoted-string-inside-parentheses-not-recognised"),
    (Feature::AtInRdata, "at-sign-in-rdata-rejected"),
    (Feature::Base64Split, "cert-base64-split-into-tokens"),
    (Feature::SvcbRelativeTarget, "svcb-relative-target-not-completed-with-origin"),
];

/// the suspects whose finding is still recorded as `known`: a layout whose defect has been fixed in
/// /repo is neither avoided nor an explanation any more, and a regression is a plain VIOLATION
fn active_suspects() -> &'static Vec<(Feature, &'static str)> {
    static A: std::sync::OnceLock<Vec<(Feature, &'static str)>> = std::sync::OnceLock::new();
    A.get_or_init(|| {
        let known = crate::core::known_signatures("C20");
        SUSPECTS.iter().filter(|(_, sig)| known.iter().any(|k| k == sig)).cloned().collect()
    })
}

fn render_case(text: &str) -> String {
    let mut t = text.replace('\r', "\\r").replace('\t', "\\t");
    if t.len() > 700 {
        let mut cut = 700;
        while !t.is_char_boundary(cut) {
            cut -= 1;
        }
        t.truncate(cut);
        t.push_str(" …");
    }
    t
}

/// `avoid_known_fragile` = render without the layout features listed in SUSPECTS, so that most
/// files reach the parser's other paths instead of being set aside as known findings (DESIGN §6:
/// matched cases are excluded by construction so the search continues behind them)
#[derive(Clone, Debug, Serialize, Deserialize)]
struct ExactCase {
    avoid_known_fragile: bool,
    zone: ZoneFile,
}

fn exact_case(tier: Tier, extended: bool) -> impl Strategy<Value = ExactCase> {
    (prop::bool::weighted(0.75), zgen::zone_file(tier, extended)).prop_map(|(avoid_known_fragile, zone)| ExactCase { avoid_known_fragile, zone })
}

fn exact_body(c: &ExactCase, rec: &mut Rec) -> CaseResult {
    let z = &c.zone;
    let base: Features = if c.avoid_known_fragile { active_suspects().iter().map(|(f, _)| *f).collect() } else { Features::new() };
    if let Some(reason) = zp::out_of_domain(z) {
        rec.discard(reason);
        return Ok(());
    }
    let expected = zp::denoted(z);
    if expected.is_empty() {
        rec.discard("no-records");
        return Ok(());
    }
    let (text, feats) = zp::print(z, &base);
    if text.len() > 64 * 1024 {
        rec.discard("over-64k");
        return Ok(());
    }
    rec.class(if c.avoid_known_fragile { "mode:known-fragile-layouts-avoided" } else { "mode:all-layouts" });
    for f in &feats {
        rec.class(f.label());
    }
    let mut types: BTreeSet<&str> = BTreeSet::new();
    for f in &expected {
        types.insert(match f.rtype.as_str() {
            "A" => "type:A",
            "AAAA" => "type:AAAA",
            "NS" => "type:NS",
            "CNAME" => "type:CNAME",
            "PTR" => "type:PTR",
            "ANAME" => "type:ANAME",
            "MX" => "type:MX",
            "SOA" => "type:SOA",
            "TXT" => "type:TXT",
            "HINFO" => "type:HINFO",
            "SRV" => "type:SRV",
            "CAA" => "type:CAA",
            "NAPTR" => "type:NAPTR",
            "TLSA" => "type:TLSA",
            "SMIMEA" => "type:SMIMEA",
            "SSHFP" => "type:SSHFP",
            "DS" => "type:DS",
            "CERT" => "type:CERT",
            "OPENPGPKEY" => "type:OPENPGPKEY",
            "CSYNC" => "type:CSYNC",
            "SVCB" => "type:SVCB",
            "HTTPS" => "type:HTTPS",
            _ => "type:?",
        });
    }
    for t in types {
        rec.class(t);
    }
    let wire_len = |n: &Labels| n.iter().map(|l| l.len() + 1).sum::<usize>() + 1;
    if expected.iter().any(|f| wire_len(&f.owner) == 255) {
        rec.class(if feats.contains(&Feature::OwnerRelative) { "owner-of-exactly-255-octets(file-uses-relative-owners)" } else { "owner-of-exactly-255-octets" });
    }
    // NT rule (DESIGN §7 C20): >= 3 records and >= 2 layout features among inheritance, relative
    // name, continuation, escape, $ORIGIN switch
    let nt_feats = [
        feats.contains(&Feature::OwnerInherited) || feats.contains(&Feature::TtlFromDollarTtl) || feats.contains(&Feature::TtlFromPrevious) || feats.contains(&Feature::ClassOmitted),
        feats.contains(&Feature::OwnerRelative) || feats.contains(&Feature::RelativeRdataName) || feats.contains(&Feature::OwnerAt),
        feats.contains(&Feature::Continuation),
        feats.contains(&Feature::EscapedDotInName) || feats.contains(&Feature::EscapedQuoteOrBackslash),
        feats.contains(&Feature::OriginSwitch),
    ]
    .iter()
    .filter(|b| **b)
    .count();
    if expected.len() >= 3 && nt_feats >= 2 {
        rec.nontrivial();
        if rec.wants_note() {
            rec.note(render_case(&text));
        }
    }

    let first = load_and_compare(&text, &z.origin, &expected);
    if matches!(first, Outcome::Match) {
        return Ok(());
    }
    let describe = |o: &Outcome| -> String {
        match o {
            Outcome::Match => "loads correctly".into(),
            Outcome::Panic(p) => format!("panic at {}: {}", p.1, p.0),
            Outcome::Err(e) => format!("parse error: {e}"),
            Outcome::Differs(d) => d.clone(),
        }
    };
    // ---- attribution to a known layout feature ------------------------------------------------
    let used: Vec<(Feature, &str)> = active_suspects().iter().filter(|(f, _)| feats.contains(f)).cloned().collect();
    if !used.is_empty() {
        let all: Features = used.iter().map(|(f, _)| *f).collect();
        let (clean_text, _) = zp::print(z, &all);
        let clean = load_and_compare(&clean_text, &z.origin, &expected);
        if let Outcome::Panic(p) = &clean {
            // the per-token limit can also be reached by the data itself (a > 4 KB base64 token,
            // a large parenthesised group): same root cause, whatever else the file contains
            if is_lexer_limit_panic(p) {
                vfail!("lexer-4095-iteration-assert", "{}\n--- file ---\n{}", describe(&clean), render_case(&clean_text));
            }
        }
        if matches!(clean, Outcome::Match) {
            for (f, sig) in &used {
                let mut others = all.clone();
                others.remove(f);
                // features sharing one signature (the two long-run kinds) are one root cause
                for (g, s2) in &used {
                    if s2 == sig {
                        others.remove(g);
                    }
                }
                let (t, _) = zp::print(z, &others);
                let o = load_and_compare(&t, &z.origin, &expected);
                if !matches!(o, Outcome::Match) {
                    if *sig == "lexer-4095-iteration-assert" {
                        if let Outcome::Panic(p) = &o {
                            if !is_lexer_limit_panic(p) {
                                continue;
                            }
                        } else {
                            continue;
                        }
                    }
                    vfail!(*sig, "with layout feature '{}': {}\n--- file ---\n{}", f.label(), describe(&o), render_case(&t));
                }
            }
        }
    }
    match &first {
        Outcome::Panic(p) if is_lexer_limit_panic(p) => {
            vfail!("lexer-4095-iteration-assert", "{}\n--- file ---\n{}", describe(&first), render_case(&text))
        }
        Outcome::Panic(p) => Err(crate::core::panic_fail(p)),
        Outcome::Err(_) => vfail!("well-formed-zone-file-rejected", "{}\n--- file ---\n{}", describe(&first), render_case(&text)),
        _ => vfail!("zone-load-differs-from-denoted-records", "{}\n--- file ---\n{}", describe(&first), render_case(&text)),
    }
}

// ---------------------------------------------------------------------------------------------
// \DDD escapes (RFC 1035 §5.1: "\DDD where each D is a digit is the octet corresponding to the
// decimal number described by DDD")

#[derive(Clone, Debug, Serialize, Deserialize)]
enum EscPlace {
    QuotedTxt,
    UnquotedTxt,
    OwnerLabel,
    RdataName,
}

#[derive(Clone, Debug, Serialize, Deserialize)]
struct EscCase {
    place: EscPlace,
    prefix: String,
    /// the escaped octet (printable ASCII, so that the denoted record is within what every
    /// consumer can represent)
    octet: u8,
    suffix: String,
}

fn esc_case() -> impl Strategy<Value = EscCase> {
    (
        prop::sample::select(vec![EscPlace::QuotedTxt, EscPlace::UnquotedTxt, EscPlace::OwnerLabel, EscPlace::RdataName]),
        "[a-z]{0,4}",
        // letters and digits: legal in host names and in strings alike
        prop::sample::select((b'a'..=b'z').chain(b'0'..=b'9').collect::<Vec<u8>>()),
        "[a-z]{0,4}",
    )
        .prop_map(|(place, prefix, octet, suffix)| EscCase { place, prefix, octet, suffix })
}

fn esc_body(c: &EscCase, rec: &mut Rec) -> CaseResult {
    let esc = format!("{}\\{:03}{}", c.prefix, c.octet, c.suffix);
    let plain = format!("{}{}{}", c.prefix, c.octet as char, c.suffix);
    let origin: Labels = vec!["example".into(), "com".into()];
    let host = |l: &str| -> Labels { vec![l.to_string(), "example".into(), "com".into()] };
    let (text, expected, sig) = match c.place {
        EscPlace::QuotedTxt => (
            format!("a 300 IN TXT \"{esc}\"\n"),
            zp::ZRec { owner: host("a"), ttl: 300, data: ZData::Txt(vec![plain.clone()]) },
            "decimal-escape-in-quoted-string-miscomputed",
        ),
        EscPlace::UnquotedTxt => (
            format!("a 300 IN TXT {esc}\n"),
            zp::ZRec { owner: host("a"), ttl: 300, data: ZData::Txt(vec![plain.clone()]) },
            "decimal-escape-in-unquoted-string-not-decoded",
        ),
        EscPlace::OwnerLabel => (
            format!("{esc} 300 IN A 192.0.2.1\n"),
            zp::ZRec { owner: host(&plain), ttl: 300, data: ZData::A([192, 0, 2, 1]) },
            "decimal-escape-in-name-read-as-octal",
        ),
        EscPlace::RdataName => (
            format!("a 300 IN NS {esc}\n"),
            zp::ZRec { owner: host("a"), ttl: 300, data: ZData::Ns(host(&plain)) },
            "decimal-escape-in-name-read-as-octal",
        ),
    };
    rec.class(format!("{:?}", c.place));
    rec.nontrivial();
    if rec.wants_note() {
        rec.note(render_case(&text));
    }
    let expected = vec![expected.flat()];
    match load_and_compare(&text, &origin, &expected) {
        Outcome::Match => Ok(()),
        Outcome::Panic(p) => Err(crate::core::panic_fail(&p)),
        Outcome::Err(e) => vfail!(sig, "{:?} denotes {:?} (\\{:03} = octet {} = {:?}); parse error: {e}", text, expected[0], c.octet, c.octet, c.octet as char),
        Outcome::Differs(d) => vfail!(sig, "{:?}: \\{:03} is octet {} = {:?} (RFC 1035 §5.1, decimal); {d}", text, c.octet, c.octet, c.octet as char),
    }
}

// ---------------------------------------------------------------------------------------------
// robustness

#[derive(Clone, Debug, Serialize, Deserialize)]
struct Garbage {
    class: String,
    text: String,
}

fn include_outside_sandbox(text: &str) -> bool {
    // $INCLUDE of an absolute path reads that file; keep the generator away from devices and
    // real files (only /nonexistent-verif/... is allowed as an absolute path)
    let mut rest = text;
    while let Some(i) = rest.find("$INCLUDE") {
        rest = &rest[i + 8..];
        let arg = rest.trim_start_matches([' ', '\t', '"', '(']);
        if (arg.starts_with('/') || arg.starts_with('\\')) && !arg.starts_with("/nonexistent-verif/") {
            return true;
        }
    }
    false
}

fn garbage_body(g: &Garbage, rec: &mut Rec) -> CaseResult {
    if g.text.len() > 64 * 1024 {
        rec.discard("over-64k");
        return Ok(());
    }
    if include_outside_sandbox(&g.text) {
        rec.discard("$INCLUDE-of-absolute-path");
        return Ok(());
    }
    rec.class(g.class.clone());
    let origin = Name::from_ascii("example.com.").expect("fixed");
    let r = catch(|| Parser::new(g.text.as_str(), None, Some(origin)).parse());
    match r {
        Ok(Ok(_)) => {
            rec.class("result:ok");
            // accepted garbage is fine; what it means is exact_load's business
        }
        Ok(Err(_)) => {
            rec.class("result:err");
            rec.nontrivial();
            if rec.wants_note() {
                rec.note(format!("[{}] {}", g.class, render_case(&g.text)));
            }
        }
        Err(p) => {
            if is_lexer_limit_panic(&p) {
                vfail!("lexer-4095-iteration-assert", "panic at {}: {} on a {}-byte text of class {}: {}", p.1, p.0, g.text.len(), g.class, render_case(&g.text));
            }
            if p.1.contains("rr/record_type.rs") && p.0.contains("is_ascii_lowercase") {
                vfail!(
                    "recordtype-from-str-debug-assert-on-lowercase",
                    "panic at {}: {} (debug_assert!: only in builds with debug assertions; a plain release build returns Err) on text of class {}: {}",
                    p.1,
                    p.0,
                    g.class,
                    render_case(&g.text)
                );
            }
            if p.1.contains("rr/rdata/svcb.rs") && p.0.contains("when slicing `\"`") {
                vfail!(
                    "svcb-param-value-single-quote-slice-panic",
                    "panic at {}: {} on text of class {}: {}",
                    p.1,
                    p.0,
                    g.class,
                    render_case(&g.text)
                );
            }
            if p.1.contains("rr/rdata/svcb.rs") && p.0.starts_with("infallible") {
                vfail!(
                    "svcb-alpn-list-expect-infallible-panic",
                    "panic at {}: {} on text of class {}: {}",
                    p.1,
                    p.0,
                    g.class,
                    render_case(&g.text)
                );
            }
            let f = crate::core::panic_fail(&p);
            return Err(Fail::new(f.sig, format!("{} on text of class {}: {}", f.msg, g.class, render_case(&g.text))));
        }
    }
    Ok(())
}

/// libFuzzer entry (target `fz_zonefile`): the octets, read as UTF-8 with replacement characters,
/// are a zone file; the oracle is the robustness clause (`garbage_body`: Ok or Err, no panic, and
/// libFuzzer's own per-input timeout for the endless loop). A `$INCLUDE` whose argument could name
/// a real file (any slash or backslash outside the `/nonexistent-verif/` prefix) is kept away from
/// the parser: coverage guidance would sooner or later spell `/dev/zero`.
pub fn fuzz_one(data: &[u8]) -> CaseResult {
    let text = String::from_utf8_lossy(data).into_owned();
    let mut rest = text.as_str();
    while let Some(i) = rest.find("$INCLUDE") {
        rest = &rest[i + 8..];
        let line = rest.split(['\n', '\r']).next().unwrap_or("").replace("/nonexistent-verif/", "");
        if line.contains(['/', '\\']) {
            return Ok(());
        }
    }
    let mut rec = Rec::default();
    garbage_body(&Garbage { class: "fuzz".to_string(), text }, &mut rec)
}

fn fuzz_seeds() -> Vec<Vec<u8>> {
    let mut out: Vec<Vec<u8>> = vec![
        b"$ORIGIN example.com.\n$TTL 300\n@ IN SOA ns hostmaster ( 1 2 3 4 5 )\n  NS ns\nns A 192.0.2.1\n* 60 IN TXT \"a b\" c\\\"d\n".to_vec(),
        b"a 1 IN MX 10 mail\nb IN AAAA 2001:db8::1 ; c\n_s._tcp 5 IN SRV 0 0 53 ns.example.com.\nx CAA 0 issue \"ca.example\"\n".to_vec(),
        b"h 1 IN HTTPS 1 . alpn=h2,h3 port=443 ipv4hint=192.0.2.1\ns 1 IN SVCB 0 t.example.com.\nt 1 IN TLSA 3 1 1 ( 00ff\n 11 )\nd DS 1 13 2 ABCD\n".to_vec(),
        b"n 1 IN NAPTR 100 10 \"u\" \"E2U+sip\" \"!^.*$!sip:a@b!\" .\nf SSHFP 1 1 00\nc CSYNC 1 3 A NS\ni HINFO cpu os\nk CERT 1 2 3 AAAA\no OPENPGPKEY AAAA\n".to_vec(),
        b"$INCLUDE /nonexistent-verif/x\n$INCLUDE rel.zone example.com. ; c\n".to_vec(),
        b"a\\.b.example.com. 1d2h IN TXT ( \"x\"\n ; c\n y )\n\\065 1 IN A 1.2.3.4\n".to_vec(),
    ];
    // renderings of generated zone files in generated layouts
    use proptest::strategy::{Strategy, ValueTree};
    let mut runner = proptest::test_runner::TestRunner::new_with_rng(
        proptest::test_runner::Config { failure_persistence: None, ..Default::default() },
        proptest::test_runner::TestRng::from_seed(proptest::test_runner::RngAlgorithm::ChaCha, &[20u8; 32]),
    );
    let strat = zgen::garbage(Tier::Quick);
    for _ in 0..40 {
        if let Ok(t) = strat.new_tree(&mut runner) {
            let (text, _) = t.current();
            if text.len() <= 4096 {
                out.push(text.into_bytes());
            }
        }
    }
    out
}

// ---------------------------------------------------------------------------------------------
// $INCLUDE: the same record sets, with a run of the file's lines moved into an included file (and
// a run of those into a second, nested one). RFC 1035 §5.1: the included file is read in place,
// and "a $INCLUDE entry never changes the relative origin of the parent file, regardless of
// changes to the relative origin made within the included file". What the RFC leaves open is kept
// out of the domain: the line after a $INCLUDE states its owner and TTL (or has the parent's own
// $TTL), included files carry no $TTL and state every TTL, all files sit in one directory, and the
// optional domain-name argument (which hickory documents as unsupported) is not used.

#[derive(Clone, Debug, Serialize, Deserialize)]
struct IncludeCase {
    zone: ZoneFile,
    /// cut points, as fractions of the item count (sorted when used)
    cuts: [u16; 4],
    nested: bool,
    absolute_path: bool,
    comment: bool,
    inc_final_newline: bool,
    /// the innermost included file includes the first one again: malformed, must be refused
    cyclic: bool,
}

fn include_case(tier: Tier) -> impl Strategy<Value = IncludeCase> {
    (zgen::zone_file(tier, false), any::<[u16; 4]>(), any::<bool>(), prop::bool::weighted(0.2), prop::bool::weighted(0.3), prop::bool::weighted(0.7), prop::bool::weighted(0.04)).prop_map(
        |(zone, cuts, nested, absolute_path, comment, inc_final_newline, cyclic)| IncludeCase {
            zone,
            cuts,
            nested,
            absolute_path,
            comment,
            inc_final_newline,
            cyclic,
        },
    )
}

fn c20_tmp_dir() -> std::io::Result<tempfile::TempDir> {
    if std::path::Path::new("/dev/shm").is_dir() {
        if let Ok(d) = tempfile::Builder::new().prefix("vcheck-c20-").tempdir_in("/dev/shm") {
            return Ok(d);
        }
    }
    tempfile::Builder::new().prefix("vcheck-c20-").tempdir()
}

/// (origin, $TTL) in effect after these items, starting from the given ones
fn state_after(items: &[zp::Item], origin: &Labels, ttl: Option<u32>) -> (Labels, Option<u32>) {
    let mut o = origin.clone();
    let mut t = ttl;
    for it in items {
        match it {
            zp::Item::Origin { name, .. } => o = name.clone(),
            zp::Item::Ttl { ttl, .. } => t = Some(*ttl),
            _ => {}
        }
    }
    (o, t)
}

/// the items of an included file: no $TTL of its own, every TTL stated
fn for_included(items: &[zp::Item]) -> Vec<zp::Item> {
    items
        .iter()
        .filter(|i| !matches!(i, zp::Item::Ttl { .. }))
        .cloned()
        .map(|i| match i {
            zp::Item::Rr { rec, mut lay } => {
                lay.ttl_explicit = true;
                zp::Item::Rr { rec, lay }
            }
            other => other,
        })
        .collect()
}

fn include_body(c: &IncludeCase, rec: &mut Rec) -> CaseResult {
    let z = &c.zone;
    if let Some(reason) = zp::out_of_domain(z) {
        rec.discard(reason);
        return Ok(());
    }
    let expected = zp::denoted(z);
    if expected.len() < 2 {
        rec.discard("fewer-than-two-records");
        return Ok(());
    }
    let avoid: Features = active_suspects().iter().map(|(f, _)| *f).collect();
    let n = z.items.len();
    let mut cut: Vec<usize> = c.cuts.iter().map(|x| (*x as usize * (n + 1)) >> 16).collect();
    cut.sort_unstable();
    // parent: [0, a) + $INCLUDE + [d, n); included: [a, b) + ($INCLUDE of [b, c2) +) [c2, d)
    let (a, d) = (cut[0], cut[3]);
    let (b, c2) = if c.nested { (cut[1], cut[2]) } else { (d, d) };
    let has_rr = |r: &[zp::Item]| r.iter().any(|i| matches!(i, zp::Item::Rr { .. }));
    if !has_rr(&z.items[a..d]) {
        rec.discard("no-record-in-the-included-part");
        return Ok(());
    }
    let dir = c20_tmp_dir().map_err(|e| Fail::new("harness", format!("tempdir: {e}")))?;
    let path_of = |name: &str| -> String {
        if c.absolute_path {
            dir.path().join(name).to_string_lossy().into_owned()
        } else {
            name.to_string()
        }
    };
    let include_line = |name: &str, crlf: bool| -> String { format!("$INCLUDE {}{}{}", path_of(name), if c.comment { " ; included here" } else { "" }, if crlf { "\r\n" } else { "\n" }) };
    let file = |origin: &Labels, items: Vec<zp::Item>, final_newline: bool| -> (String, Features) {
        zp::print(
            &ZoneFile {
                origin: origin.clone(),
                items,
                crlf: z.crlf,
                final_newline,
            },
            &avoid,
        )
    };
    let mut feats = Features::new();

    // ---- parent --------------------------------------------------------------------------------
    let (o_a, t_a) = state_after(&z.items[..a], &z.origin, None);
    let (mut parent, f) = file(&z.origin, z.items[..a].to_vec(), true);
    feats.extend(f);
    parent.push_str(&include_line("inc1.zone", z.crlf));
    let mut tail: Vec<zp::Item> = Vec::new();
    if let Some(t) = t_a {
        // the parent's own $TTL is still in force; restating it tells the printer so
        tail.push(zp::Item::Ttl { ttl: t, comment: None });
    }
    tail.extend(z.items[d..].iter().cloned());
    // printed relative to the origin in force *before* the $INCLUDE
    let (t, f) = file(&o_a, tail, z.final_newline);
    feats.extend(f);
    parent.push_str(&t);

    // ---- included files ------------------------------------------------------------------------
    let (o_b, _) = state_after(&z.items[a..b], &o_a, None);
    let (mut inc1, f) = file(&o_a, for_included(&z.items[a..b]), if c.nested { true } else { c.inc_final_newline });
    feats.extend(f);
    let mut origin_moves_in_include = z.items[a..d].iter().any(|i| matches!(i, zp::Item::Origin { name, .. } if *name != o_a));
    if c.nested {
        inc1.push_str(&include_line("inc2.zone", z.crlf));
        let (inc2, f) = file(&o_b, for_included(&z.items[b..c2]), c.inc_final_newline);
        feats.extend(f);
        std::fs::write(dir.path().join("inc2.zone"), &inc2).map_err(|e| Fail::new("harness", format!("write: {e}")))?;
        // back in inc1: its own origin, whatever inc2 did
        let (t, f) = file(&o_b, for_included(&z.items[c2..d]), c.inc_final_newline);
        feats.extend(f);
        inc1.push_str(&t);
        origin_moves_in_include |= o_b != o_a;
    }
    if c.cyclic {
        if !inc1.ends_with('\n') {
            inc1.push('\n');
        }
        inc1.push_str(&include_line("inc1.zone", z.crlf));
    }
    std::fs::write(dir.path().join("inc1.zone"), &inc1).map_err(|e| Fail::new("harness", format!("write: {e}")))?;
    let parent_path = dir.path().join("parent.zone");
    std::fs::write(&parent_path, &parent).map_err(|e| Fail::new("harness", format!("write: {e}")))?;

    rec.class(if c.nested { "include:nested" } else { "include:one-level" });
    rec.class(if c.absolute_path { "include-path:absolute" } else { "include-path:relative-to-the-including-file" });
    let parent_relies_on_origin = has_rr(&z.items[d..]);
    if origin_moves_in_include {
        rec.class(if parent_relies_on_origin { "$ORIGIN-changed-inside-include,records-follow-in-parent" } else { "$ORIGIN-changed-inside-include" });
    }
    if !c.inc_final_newline {
        rec.class("included-file-without-final-newline");
    }
    if a == 0 {
        rec.class("$INCLUDE-is-the-first-line");
    }
    if !has_rr(&z.items[d..]) {
        rec.class("$INCLUDE-is-the-last-line-with-records-behind-it:no");
    }
    for f in &feats {
        rec.class(f.label());
    }
    rec.nontrivial();
    let show = || format!("parent.zone:\n{}\ninc1.zone:\n{}", render_case(&parent), render_case(&inc1));
    if rec.wants_note() {
        rec.note(show());
    }

    let origin_name = to_abs(&z.origin);
    let r = catch(|| Parser::new(parent.as_str(), Some(parent_path.clone()), Some(origin_name)).parse());
    if c.cyclic {
        rec.class("include:file-includes-itself");
        return match r {
            Err(p) => Err(crate::core::panic_fail(&p)),
            Ok(Err(_)) => Ok(()),
            Ok(Ok(_)) => vfail!("self-including-file-accepted", "a file that includes itself loaded without an error; {}", show()),
        };
    }
    let map = match r {
        Err(p) => return Err(crate::core::panic_fail(&p)),
        Ok(Err(e)) => vfail!("include-file-rejected", "parse error: {e}; {}", show()),
        Ok(Ok((_o, map))) => map,
    };
    let loaded = flatten(&map);
    vensure!(loaded.notes.is_empty(), "include-loaded-records-unusable", "{}; {}", loaded.notes.join("; "), show());
    if loaded.flats != expected {
        let exp: BTreeSet<&Flat> = expected.iter().collect();
        let got: BTreeSet<&Flat> = loaded.flats.iter().collect();
        let missing: Vec<String> = exp.difference(&got).take(2).map(|f| format!("{f:?}")).collect();
        let extra: Vec<String> = got.difference(&exp).take(2).map(|f| format!("{f:?}")).collect();
        // does the difference go away when the parent restates its origin after the $INCLUDE?
        let sig = if origin_moves_in_include { "origin-set-inside-include-leaks-into-the-including-file" } else { "include-loads-other-records" };
        vfail!(sig, "denoted but not loaded: [{}]; loaded but not denoted: [{}]; {}", missing.join(", "), extra.join(", "), show());
    }
    Ok(())
}

pub fn check() -> Option<Check> {
    let exact_core = prop("exact_load", 120_000, 2_000_000, |t: Tier| exact_case(t, false), exact_body);
    let exact_ext = prop("exact_load_extended_types", 60_000, 1_000_000, |t: Tier| exact_case(t, true), exact_body);
    let escapes = prop("decimal_escapes", 2_000, 20_000, |_| esc_case(), esc_body);
    let garbage = prop_hang(
        "garbage",
        60_000,
        2_000_000,
        Duration::from_secs(5),
        |t: Tier| zgen::garbage(t).prop_map(|(text, class)| Garbage { class, text }),
        garbage_body,
    );
    let include = prop_hang("include_layout", 30_000, 500_000, Duration::from_secs(10), include_case, include_body);
    let fuzz: Box<dyn crate::core::Sub> = Box::new(crate::core::FuzzSub {
        name: "fz_zonefile",
        target: "fz_zonefile",
        runs_thorough: 4_000_000,
        max_len: 8_192,
        oracle: fuzz_one,
        seeds: fuzz_seeds,
    });
    Some(Check {
        id: "C20",
        level: "exploration",
        rule: "exact_load: 1-10 (thorough 16) items per file: RRs of A, AAAA, NS, CNAME, PTR, MX, SOA, TXT, SRV, CAA, HINFO, NAPTR, TLSA, SSHFP, DS (extended sub: + ANAME, SMIMEA, CERT, OPENPGPKEY, CSYNC, SVCB, HTTPS) with generated field values, owners at/below 1-3 origins incl. wildcard, underscore and escaped-dot labels and names padded to exactly 255 (or 254, 252) octets on the wire, runs of RRs at one owner, $ORIGIN / $TTL / blank / comment lines in between; per-RR layout: owner absolute / relative / @ / inherited, TTL explicit / from $TTL / from previous RR, class present / absent, class before TTL, blanks vs tabs, trailing comment, RDATA names absolute / relative / @, strings quoted / unquoted, hex upper/lower and split, parenthesised group over any RDATA field range with line breaks and inner comment, LF / CRLF, final newline present / absent, rare >4 KB comment or blank run. Oracle: loaded map flattened to (owner, class, type, TTL, RDATA) = denoted set, names compared case-insensitively. Non-trivial = distinct case AND >= 3 records AND >= 2 of {inheritance (owner/TTL/class), relative name or @, continuation, escape (\\. \\\" \\\\), $ORIGIN switch}. include_layout: the same files with a run of lines moved into an included file and, in half of the cases, a run of those into a second, nested one ($INCLUDE with a relative or absolute file name, with or without comment, included file with or without final newline, $ORIGIN switches inside the included files); the parent's text after the $INCLUDE line is printed relative to the origin in force before it (RFC 1035 5.1: an included file never changes the parent's origin), files are written to a scratch directory and loaded with Parser::new(text, Some(path), Some(origin)); every case is non-trivial; 1 case in 25 makes the innermost file include itself and must be refused without panic or hang. decimal_escapes: every case. garbage: every case that is rejected with Err (accepted ones are counted).",
        assumptions: vec![
            "exact-load alphabet: LDH labels (no xn-- prefix), leading underscore, leading *, escaped dot; strings printable ASCII with \\\" and \\\\ as the only escapes; class IN; $ORIGIN/$TTL upper case; type mnemonics upper case; TTLs and SOA timers as plain decimal integers (TTL <= 2^31-1, SOA refresh/retry/expire <= 2^31-1 because hickory's SOA stores them as i32)",
            "parentheses are used only around RDATA fields (after the type), the one place hickory's parser accepts a group",
            "one TTL per RRset, no duplicate RRs, at most one SOA per file and one CNAME/ANAME per owner (generator enforces; else discarded)",
            "the first RR of a file states its class explicitly (RFC 1035 defines no default before the first statement)",
            "embedded domain names compared case-insensitively (the UTF-8 name path lower-cases; DNS-equal)",
            "include_layout keeps out what RFC 1035 leaves open: the line after a $INCLUDE states its owner and its TTL (or the parent's own $TTL is in force), included files carry no $TTL and state every TTL, all files sit in one directory; the optional domain-name argument of $INCLUDE is not generated (hickory refuses it with 'Domain name for $INCLUDE is not supported': an error, not a wrong record; recorded under observations)",
            "garbage: $INCLUDE of absolute paths only below /nonexistent-verif/ (the parser would read real files)",
            "fz_zonefile (thorough tier: libFuzzer campaign; quick tier: its seed corpus through the same oracle) decides the robustness clause only: texts of at most 8 KB read as UTF-8 with replacement characters; a $INCLUDE argument with a slash or backslash outside /nonexistent-verif/ is skipped",
        ],
        subs: vec![exact_core, exact_ext, include, escapes, garbage, fuzz],
    })
}
