//! Single-threaded discrete-event runtime: `futures_executor::LocalPool` + own timer heap +
//! the interposed virtual clock (clock.rs). Virtual time advances only when the pool is
//! stalled, to the earliest timer. Sockets are scripted through a per-thread `SimNet`.
//!
//! Everything is thread-local, so 16 shards can run 16 independent simulations in parallel.

use std::cell::RefCell;
use std::collections::{BTreeMap, HashMap};
use std::future::Future;
use std::io;
use std::net::SocketAddr;
use std::pin::Pin;
use std::rc::Rc;
use std::task::{Context, Poll, Waker};
use std::time::Duration;

use async_trait::async_trait;
use futures_executor::{LocalPool, LocalSpawner};
use futures_util::task::LocalSpawnExt;
use hickory_net::runtime::{DnsTcpStream, DnsUdpSocket, RuntimeProvider, Spawn, Time};

use crate::clock;

// ---------------------------------------------------------------------------------------------
// thread-local simulator state

#[derive(Default)]
struct State {
    /// (deadline nanos, seq) -> waker
    timers: BTreeMap<(u64, u64), Waker>,
    seq: u64,
    spawner: Option<LocalSpawner>,
    net: Option<Rc<dyn SimNet>>,
    sock_wakers: HashMap<u64, Waker>,
    spawned: u64,
    events: u64,
}

thread_local! {
    static STATE: RefCell<State> = RefCell::new(State::default());
}

fn register_timer(deadline: u64, waker: Waker) -> (u64, u64) {
    STATE.with(|s| {
        let mut s = s.borrow_mut();
        s.seq += 1;
        let key = (deadline, s.seq);
        s.timers.insert(key, waker);
        key
    })
}

fn cancel_timer(key: (u64, u64)) {
    let _ = STATE.try_with(|s| {
        if let Ok(mut s) = s.try_borrow_mut() {
            s.timers.remove(&key);
        }
    });
}

fn with_net<R>(f: impl FnOnce(&dyn SimNet) -> R) -> R {
    let net = STATE.with(|s| s.borrow().net.clone());
    match net {
        Some(n) => f(&*n),
        None => panic!("simulated socket used without a SimNet installed on this thread"),
    }
}

pub fn wake_socket(id: u64) {
    let w = STATE.with(|s| s.borrow_mut().sock_wakers.remove(&id));
    if let Some(w) = w {
        w.wake();
    }
}

pub fn now_nanos() -> u64 {
    clock::virtual_nanos()
}

// ---------------------------------------------------------------------------------------------
// the simulation driver

#[derive(Debug, Clone, PartialEq, Eq)]
pub enum SimError {
    /// no runnable task and no timer: the awaited future can never complete
    Deadlock,
    /// event budget exhausted
    Budget,
}

pub struct Sim {
    pool: LocalPool,
    _clock: clock::VirtualClock,
}

impl Sim {
    /// start a simulation on this thread at virtual unix time `unix_base`
    pub fn new(unix_base: u64) -> Self {
        let pool = LocalPool::new();
        let spawner = pool.spawner();
        STATE.with(|s| {
            let mut s = s.borrow_mut();
            *s = State::default();
            s.spawner = Some(spawner);
        });
        Self {
            pool,
            _clock: clock::VirtualClock::start(unix_base),
        }
    }

    pub fn set_net(&self, net: Rc<dyn SimNet>) {
        STATE.with(|s| s.borrow_mut().net = Some(net));
    }

    pub fn spawn_local(&self, fut: impl Future<Output = ()> + 'static) {
        self.pool.spawner().spawn_local(fut).expect("spawn_local");
    }

    pub fn events(&self) -> u64 {
        STATE.with(|s| s.borrow().events)
    }

    /// run everything that can run without advancing time
    pub fn settle(&mut self) {
        self.pool.run_until_stalled();
    }

    /// advance virtual time by `d`, firing timers on the way
    pub fn advance(&mut self, d: Duration) {
        let target = now_nanos() + d.as_nanos() as u64;
        loop {
            self.pool.run_until_stalled();
            let next = STATE.with(|s| s.borrow().timers.keys().next().copied());
            match next {
                Some(key) if key.0 <= target => {
                    if key.0 > now_nanos() {
                        clock::set_virtual_nanos(key.0);
                    }
                    let w = STATE.with(|s| {
                        let mut s = s.borrow_mut();
                        s.events += 1;
                        s.timers.remove(&key)
                    });
                    if let Some(w) = w {
                        w.wake();
                    }
                }
                _ => break,
            }
        }
        clock::set_virtual_nanos(target);
        self.pool.run_until_stalled();
    }

    /// drive `fut` to completion, advancing virtual time whenever the pool stalls
    pub fn run<F: Future + 'static>(&mut self, fut: F, max_events: u64) -> Result<F::Output, SimError>
    where
        F::Output: 'static,
    {
        let out: Rc<RefCell<Option<F::Output>>> = Rc::new(RefCell::new(None));
        let o2 = out.clone();
        self.spawn_local(async move {
            let r = fut.await;
            *o2.borrow_mut() = Some(r);
        });
        let mut events = 0u64;
        loop {
            self.pool.run_until_stalled();
            if let Some(r) = out.borrow_mut().take() {
                return Ok(r);
            }
            let next = STATE.with(|s| s.borrow().timers.keys().next().copied());
            let Some(key) = next else {
                return Err(SimError::Deadlock);
            };
            events += 1;
            if events > max_events {
                return Err(SimError::Budget);
            }
            if key.0 > now_nanos() {
                clock::set_virtual_nanos(key.0);
            }
            let w = STATE.with(|s| {
                let mut s = s.borrow_mut();
                s.events += 1;
                s.timers.remove(&key)
            });
            if let Some(w) = w {
                w.wake();
            }
        }
    }
}

impl Drop for Sim {
    fn drop(&mut self) {
        // drop tasks first (they may hold sockets), then the thread-local state
        let _ = STATE.try_with(|s| {
            if let Ok(mut s) = s.try_borrow_mut() {
                s.timers.clear();
                s.sock_wakers.clear();
                s.net = None;
                s.spawner = None;
            }
        });
    }
}

// ---------------------------------------------------------------------------------------------
// Time

pub struct Delay {
    deadline: u64,
    key: Option<(u64, u64)>,
}

impl Delay {
    pub fn new(d: Duration) -> Self {
        Self {
            deadline: now_nanos().saturating_add(d.as_nanos().min(u64::MAX as u128 / 2) as u64),
            key: None,
        }
    }
    pub fn until(deadline: u64) -> Self {
        Self { deadline, key: None }
    }
}

impl Future for Delay {
    type Output = ();
    fn poll(mut self: Pin<&mut Self>, cx: &mut Context<'_>) -> Poll<()> {
        if let Some(k) = self.key.take() {
            cancel_timer(k);
        }
        if now_nanos() >= self.deadline {
            return Poll::Ready(());
        }
        self.key = Some(register_timer(self.deadline, cx.waker().clone()));
        Poll::Pending
    }
}

impl Drop for Delay {
    fn drop(&mut self) {
        if let Some(k) = self.key.take() {
            cancel_timer(k);
        }
    }
}

struct Timeout<F> {
    fut: Pin<Box<F>>,
    delay: Delay,
}

impl<F: Future> Future for Timeout<F> {
    type Output = Result<F::Output, io::Error>;
    fn poll(mut self: Pin<&mut Self>, cx: &mut Context<'_>) -> Poll<Self::Output> {
        if let Poll::Ready(r) = self.fut.as_mut().poll(cx) {
            return Poll::Ready(Ok(r));
        }
        match Pin::new(&mut self.delay).poll(cx) {
            Poll::Ready(()) => Poll::Ready(Err(io::Error::new(io::ErrorKind::TimedOut, "future timed out"))),
            Poll::Pending => Poll::Pending,
        }
    }
}

#[derive(Clone, Copy, Debug)]
pub struct SimTime;

#[async_trait]
impl Time for SimTime {
    async fn delay_for(duration: Duration) {
        Delay::new(duration).await
    }

    async fn timeout<F: 'static + Future + Send>(duration: Duration, future: F) -> Result<F::Output, io::Error> {
        Timeout {
            fut: Box::pin(future),
            delay: Delay::new(duration),
        }
        .await
    }

    fn current_time() -> u64 {
        if clock::is_virtual() {
            clock::virtual_unix_secs()
        } else {
            std::time::SystemTime::now()
                .duration_since(std::time::UNIX_EPOCH)
                .unwrap()
                .as_secs()
        }
    }
}

// ---------------------------------------------------------------------------------------------
// Spawn

#[derive(Clone, Copy, Debug, Default)]
pub struct SimHandle;

impl Spawn for SimHandle {
    fn spawn_bg(&mut self, future: impl Future<Output = ()> + Send + 'static) {
        let spawner = STATE.with(|s| {
            let mut s = s.borrow_mut();
            s.spawned += 1;
            s.spawner.clone()
        });
        match spawner {
            Some(sp) => sp.spawn_local(future).expect("spawn_local"),
            None => panic!("SimHandle::spawn_bg without a running Sim on this thread"),
        }
    }
}

// ---------------------------------------------------------------------------------------------
// scripted network

pub enum RecvPoll {
    Ready(Vec<u8>, SocketAddr),
    /// nothing yet; poll again at this absolute virtual time (nanos)
    At(u64),
    /// nothing scheduled; poll again after the next send on this socket
    Never,
    Err(io::Error),
}

pub enum ReadPoll {
    Data(Vec<u8>),
    Eof,
    At(u64),
    Never,
    Err(io::Error),
}

pub enum WritePoll {
    /// accept at most this many octets now
    Accept(usize),
    At(u64),
    Err(io::Error),
}

pub enum Connect {
    Ok(u64),
    /// connection completes/fails at absolute time
    OkAt(u64, u64),
    Err(io::Error),
    ErrAt(u64, io::ErrorKind),
    /// never completes (until the caller's timeout)
    Hang,
}

/// the per-thread network model; implemented by each check
pub trait SimNet {
    fn udp_bind(&self, local: SocketAddr, server: SocketAddr) -> io::Result<u64>;
    fn udp_send(&self, sock: u64, buf: &[u8], target: SocketAddr) -> io::Result<usize>;
    fn udp_poll_recv(&self, sock: u64, now: u64) -> RecvPoll;
    fn udp_drop(&self, _sock: u64) {}
    fn tcp_connect(&self, _server: SocketAddr, _now: u64) -> Connect {
        Connect::Err(io::Error::new(io::ErrorKind::ConnectionRefused, "no tcp in this simulation"))
    }
    fn tcp_poll_write(&self, _conn: u64, _buf: &[u8], _now: u64) -> WritePoll {
        WritePoll::Err(io::Error::new(io::ErrorKind::BrokenPipe, "no tcp"))
    }
    fn tcp_poll_read(&self, _conn: u64, _max: usize, _now: u64) -> ReadPoll {
        ReadPoll::Eof
    }
    fn tcp_drop(&self, _conn: u64) {}
}

pub struct SimUdp {
    id: u64,
}

impl Drop for SimUdp {
    fn drop(&mut self) {
        let net = STATE.try_with(|s| s.try_borrow().ok().and_then(|s| s.net.clone())).ok().flatten();
        if let Some(n) = net {
            n.udp_drop(self.id);
        }
    }
}

fn pending_on_socket(id: u64, at: Option<u64>, cx: &mut Context<'_>) {
    STATE.with(|s| {
        s.borrow_mut().sock_wakers.insert(id, cx.waker().clone());
    });
    if let Some(t) = at {
        // a fire-and-forget timer: spurious wake-ups are harmless
        register_timer(t, cx.waker().clone());
    }
}

#[async_trait]
impl DnsUdpSocket for SimUdp {
    type Time = SimTime;

    fn poll_recv_from(&self, cx: &mut Context<'_>, buf: &mut [u8]) -> Poll<io::Result<(usize, SocketAddr)>> {
        match with_net(|n| n.udp_poll_recv(self.id, now_nanos())) {
            RecvPoll::Ready(data, src) => {
                let n = data.len().min(buf.len());
                buf[..n].copy_from_slice(&data[..n]);
                Poll::Ready(Ok((n, src)))
            }
            RecvPoll::At(t) => {
                pending_on_socket(self.id, Some(t), cx);
                Poll::Pending
            }
            RecvPoll::Never => {
                pending_on_socket(self.id, None, cx);
                Poll::Pending
            }
            RecvPoll::Err(e) => Poll::Ready(Err(e)),
        }
    }

    fn poll_send_to(&self, _cx: &mut Context<'_>, buf: &[u8], target: SocketAddr) -> Poll<io::Result<usize>> {
        let r = with_net(|n| n.udp_send(self.id, buf, target));
        wake_socket(self.id);
        Poll::Ready(r)
    }
}

pub struct SimTcp {
    id: u64,
}

impl Drop for SimTcp {
    fn drop(&mut self) {
        let net = STATE.try_with(|s| s.try_borrow().ok().and_then(|s| s.net.clone())).ok().flatten();
        if let Some(n) = net {
            n.tcp_drop(self.id);
        }
    }
}

impl DnsTcpStream for SimTcp {
    type Time = SimTime;
}

impl futures_util::io::AsyncRead for SimTcp {
    fn poll_read(self: Pin<&mut Self>, cx: &mut Context<'_>, buf: &mut [u8]) -> Poll<io::Result<usize>> {
        match with_net(|n| n.tcp_poll_read(self.id, buf.len(), now_nanos())) {
            ReadPoll::Data(d) => {
                let n = d.len().min(buf.len());
                buf[..n].copy_from_slice(&d[..n]);
                Poll::Ready(Ok(n))
            }
            ReadPoll::Eof => Poll::Ready(Ok(0)),
            ReadPoll::At(t) => {
                pending_on_socket(self.id, Some(t), cx);
                Poll::Pending
            }
            ReadPoll::Never => {
                pending_on_socket(self.id, None, cx);
                Poll::Pending
            }
            ReadPoll::Err(e) => Poll::Ready(Err(e)),
        }
    }
}

impl futures_util::io::AsyncWrite for SimTcp {
    fn poll_write(self: Pin<&mut Self>, cx: &mut Context<'_>, buf: &[u8]) -> Poll<io::Result<usize>> {
        match with_net(|n| n.tcp_poll_write(self.id, buf, now_nanos())) {
            WritePoll::Accept(n) => {
                wake_socket(self.id);
                Poll::Ready(Ok(n.min(buf.len())))
            }
            WritePoll::At(t) => {
                pending_on_socket(self.id, Some(t), cx);
                Poll::Pending
            }
            WritePoll::Err(e) => Poll::Ready(Err(e)),
        }
    }
    fn poll_flush(self: Pin<&mut Self>, _cx: &mut Context<'_>) -> Poll<io::Result<()>> {
        Poll::Ready(Ok(()))
    }
    fn poll_close(self: Pin<&mut Self>, _cx: &mut Context<'_>) -> Poll<io::Result<()>> {
        Poll::Ready(Ok(()))
    }
}

// ---------------------------------------------------------------------------------------------
// RuntimeProvider

#[derive(Clone, Copy, Debug, Default)]
pub struct SimRt;

impl RuntimeProvider for SimRt {
    type Handle = SimHandle;
    type Timer = SimTime;
    type Udp = SimUdp;
    type Tcp = SimTcp;

    fn create_handle(&self) -> Self::Handle {
        SimHandle
    }

    fn connect_tcp(
        &self,
        server_addr: SocketAddr,
        _bind_addr: Option<SocketAddr>,
        timeout: Option<Duration>,
    ) -> Pin<Box<dyn Send + Future<Output = Result<Self::Tcp, io::Error>>>> {
        Box::pin(async move {
            let deadline = timeout.map(|t| now_nanos() + t.as_nanos() as u64);
            match with_net(|n| n.tcp_connect(server_addr, now_nanos())) {
                Connect::Ok(id) => Ok(SimTcp { id }),
                Connect::Err(e) => Err(e),
                Connect::OkAt(t, id) => {
                    if deadline.is_some_and(|d| d < t) {
                        Delay::until(deadline.unwrap()).await;
                        return Err(io::Error::new(io::ErrorKind::TimedOut, "connect timed out"));
                    }
                    Delay::until(t).await;
                    Ok(SimTcp { id })
                }
                Connect::ErrAt(t, kind) => {
                    if deadline.is_some_and(|d| d < t) {
                        Delay::until(deadline.unwrap()).await;
                        return Err(io::Error::new(io::ErrorKind::TimedOut, "connect timed out"));
                    }
                    Delay::until(t).await;
                    Err(io::Error::new(kind, "simulated connect failure"))
                }
                Connect::Hang => {
                    match deadline {
                        Some(d) => Delay::until(d).await,
                        None => Delay::until(u64::MAX / 4).await,
                    }
                    Err(io::Error::new(io::ErrorKind::TimedOut, "connect timed out"))
                }
            }
        })
    }

    fn bind_udp(
        &self,
        local_addr: SocketAddr,
        server_addr: SocketAddr,
    ) -> Pin<Box<dyn Send + Future<Output = Result<Self::Udp, io::Error>>>> {
        Box::pin(async move {
            let id = with_net(|n| n.udp_bind(local_addr, server_addr))?;
            Ok(SimUdp { id })
        })
    }
}
