//! RFC 4035 §5.3.2 signed data, RFC 4034 Appendix B key tag, RFC 1982 serial arithmetic, and
//! signing / verifying directly with `ring` (RFC 8080 Ed25519, RFC 6605 ECDSA, RFC 5702 / 3110
//! RSA). Shares no code with hickory.

use std::sync::OnceLock;

use ring::rand::SystemRandom;
use ring::signature::{self, EcdsaKeyPair, Ed25519KeyPair, KeyPair, RsaKeyPair};
use serde::{Deserialize, Serialize};

use crate::gen::names::MName;
use crate::refm::dnssec_wire::put_name;

pub const ALG_RSASHA1: u8 = 5;
pub const ALG_RSASHA256: u8 = 8;
pub const ALG_RSASHA512: u8 = 10;
pub const ALG_ECDSAP256: u8 = 13;
pub const ALG_ECDSAP384: u8 = 14;
pub const ALG_ED25519: u8 = 15;

/// the RRSIG RDATA fields other than the signature (RFC 4034 §3.1)
#[derive(Clone, Debug, PartialEq, Eq, Hash, Serialize, Deserialize)]
pub struct SigParams {
    pub type_covered: u16,
    pub algorithm: u8,
    pub labels: u8,
    pub original_ttl: u32,
    pub expiration: u32,
    pub inception: u32,
    pub key_tag: u16,
    pub signer: MName,
}

impl SigParams {
    /// RFC 4035 §5.3.2: "RRSIG_RDATA is the wire format of the RRSIG RDATA fields with the
    /// Signature field excluded and the Signer's Name in canonical form"
    pub fn rdata_prefix(&self, canonical_signer: bool) -> Vec<u8> {
        let mut o = Vec::new();
        o.extend_from_slice(&self.type_covered.to_be_bytes());
        o.push(self.algorithm);
        o.push(self.labels);
        o.extend_from_slice(&self.original_ttl.to_be_bytes());
        o.extend_from_slice(&self.expiration.to_be_bytes());
        o.extend_from_slice(&self.inception.to_be_bytes());
        o.extend_from_slice(&self.key_tag.to_be_bytes());
        put_name(&mut o, &self.signer.labels, canonical_signer);
        o
    }

    /// full RRSIG RDATA as it travels on the wire (signer name as given)
    pub fn rdata_wire(&self, signature: &[u8]) -> Vec<u8> {
        let mut o = self.rdata_prefix(false);
        o.extend_from_slice(signature);
        o
    }
}

/// RFC 4034 §3.1.3: the Labels value of a correctly produced RRSIG: number of labels of the
/// owner name, not counting the root and not counting a leftmost "*"
pub fn label_count(owner: &[Vec<u8>]) -> usize {
    owner.len() - usize::from(owner.first().is_some_and(|l| l.as_slice() == b"*"))
}

#[derive(Clone, Debug, PartialEq, Eq)]
pub enum TbsError {
    /// RFC 4035 §5.3.2: rrsig_labels > fqdn_labels — the RRSIG MUST NOT be used
    LabelsExceedOwner,
}

/// RFC 4035 §5.3.2 "To calculate the name"
pub fn signed_owner(owner: &[Vec<u8>], labels: u8) -> Result<Vec<Vec<u8>>, TbsError> {
    let fqdn_labels = label_count(owner);
    let l = labels as usize;
    if l == fqdn_labels {
        Ok(owner.to_vec())
    } else if l < fqdn_labels {
        let mut n = vec![b"*".to_vec()];
        n.extend_from_slice(&owner[owner.len() - l..]);
        Ok(n)
    } else {
        Err(TbsError::LabelsExceedOwner)
    }
}

/// RR(i) = name | type | class | OrigTTL | RDATA length | RDATA (RFC 4035 §5.3.2), `name`
/// in canonical form (RFC 4034 §6.2 item 2: owner letters folded)
pub fn rr_image(name: &[Vec<u8>], rtype: u16, class: u16, orig_ttl: u32, canonical_rdata: &[u8]) -> Vec<u8> {
    let mut o = Vec::new();
    put_name(&mut o, name, true);
    o.extend_from_slice(&rtype.to_be_bytes());
    o.extend_from_slice(&class.to_be_bytes());
    o.extend_from_slice(&orig_ttl.to_be_bytes());
    o.extend_from_slice(&(canonical_rdata.len() as u16).to_be_bytes());
    o.extend_from_slice(canonical_rdata);
    o
}

/// RFC 4034 §6.3: sort canonical RDATAs as left-justified unsigned octet sequences, absence of
/// an octet before a zero octet (= lexicographic order of byte vectors); duplicates removed
/// (RFC 4034 §6.3 last paragraph, and the property's "each distinct RR") when `dedup`.
pub fn canonical_order(mut rdatas: Vec<Vec<u8>>, dedup: bool) -> Vec<Vec<u8>> {
    rdatas.sort();
    if dedup {
        rdatas.dedup();
    }
    rdatas
}

pub struct SignedData {
    /// RRSIG_RDATA
    pub prefix: Vec<u8>,
    /// RR(1), RR(2), ... in order
    pub rrs: Vec<Vec<u8>>,
}

impl SignedData {
    pub fn bytes(&self) -> Vec<u8> {
        let mut o = self.prefix.clone();
        for r in &self.rrs {
            o.extend_from_slice(r);
        }
        o
    }
}

/// signed_data = RRSIG_RDATA | RR(1) | RR(2)... (RFC 4035 §5.3.2) for an RRset given by its owner,
/// class and the canonical RDATA of each member
pub fn signed_data(
    owner: &[Vec<u8>],
    class: u16,
    sig: &SigParams,
    canonical_rdatas: Vec<Vec<u8>>,
    dedup: bool,
) -> Result<SignedData, TbsError> {
    let name = signed_owner(owner, sig.labels)?;
    let rrs = canonical_order(canonical_rdatas, dedup)
        .iter()
        .map(|rd| rr_image(&name, sig.type_covered, class, sig.original_ttl, rd))
        .collect();
    Ok(SignedData {
        prefix: sig.rdata_prefix(true),
        rrs,
    })
}

/// RFC 4034 Appendix B (algorithms other than 1)
pub fn key_tag(dnskey_rdata: &[u8]) -> u16 {
    let mut ac: u32 = 0;
    for (i, b) in dnskey_rdata.iter().enumerate() {
        ac += if i & 1 == 1 { *b as u32 } else { (*b as u32) << 8 };
    }
    ac += (ac >> 16) & 0xFFFF;
    (ac & 0xFFFF) as u16
}

pub fn dnskey_rdata(flags: u16, protocol: u8, alg: u8, key: &[u8]) -> Vec<u8> {
    let mut o = Vec::with_capacity(4 + key.len());
    o.extend_from_slice(&flags.to_be_bytes());
    o.push(protocol);
    o.push(alg);
    o.extend_from_slice(key);
    o
}

// ---------------------------------------------------------------------------------------------
// RFC 1982 §3.2 serial number comparison, SERIAL_BITS = 32

#[derive(Clone, Copy, Debug, PartialEq, Eq)]
pub enum SerialOrd {
    Less,
    Equal,
    Greater,
    /// the two values are exactly 2^31 apart: RFC 1982 leaves the result undefined
    Undefined,
}

pub fn serial_cmp(i1: u32, i2: u32) -> SerialOrd {
    const HALF: u32 = 1 << 31;
    if i1 == i2 {
        SerialOrd::Equal
    } else if (i1 < i2 && i2 - i1 < HALF) || (i1 > i2 && i1 - i2 > HALF) {
        SerialOrd::Less
    } else if (i1 < i2 && i2 - i1 > HALF) || (i1 > i2 && i1 - i2 < HALF) {
        SerialOrd::Greater
    } else {
        SerialOrd::Undefined
    }
}

#[derive(Clone, Copy, Debug, PartialEq, Eq)]
pub enum Window {
    Inside,
    Outside,
    /// an RFC 1982-undefined comparison was involved
    Undefined,
}

/// RFC 4035 §5.3.1: inception <= now <= expiration, all in RFC 1982 arithmetic (RFC 4034 §3.1.5)
pub fn in_window(inception: u32, expiration: u32, now: u32) -> Window {
    let a = serial_cmp(inception, now);
    let b = serial_cmp(now, expiration);
    if a == SerialOrd::Greater || b == SerialOrd::Greater {
        Window::Outside
    } else if a == SerialOrd::Undefined || b == SerialOrd::Undefined {
        Window::Undefined
    } else {
        Window::Inside
    }
}

// ---------------------------------------------------------------------------------------------
// keys: ring directly

pub enum RefKey {
    Ed25519(Ed25519KeyPair),
    Ecdsa(EcdsaKeyPair, u8),
    Rsa(RsaKeyPair),
}

impl RefKey {
    pub fn ed25519_from_seed(seed: &[u8; 32]) -> Self {
        RefKey::Ed25519(Ed25519KeyPair::from_seed_unchecked(seed).expect("32-octet seed"))
    }

    pub fn ed25519_from_pkcs8(der: &[u8]) -> Self {
        RefKey::Ed25519(Ed25519KeyPair::from_pkcs8_maybe_unchecked(der).expect("ed25519 pkcs8"))
    }

    pub fn ecdsa_from_pkcs8(der: &[u8], alg: u8) -> Self {
        let ring_alg = match alg {
            ALG_ECDSAP256 => &signature::ECDSA_P256_SHA256_FIXED_SIGNING,
            ALG_ECDSAP384 => &signature::ECDSA_P384_SHA384_FIXED_SIGNING,
            _ => panic!("not an ECDSA algorithm number"),
        };
        RefKey::Ecdsa(
            EcdsaKeyPair::from_pkcs8(ring_alg, der, &SystemRandom::new()).expect("ecdsa pkcs8"),
            alg,
        )
    }

    pub fn rsa_from_pkcs8(der: &[u8]) -> Self {
        RefKey::Rsa(RsaKeyPair::from_pkcs8(der).expect("rsa pkcs8"))
    }

    /// can this key material be used with DNSSEC algorithm number `alg`
    pub fn supports(&self, alg: u8) -> bool {
        match self {
            RefKey::Ed25519(_) => alg == ALG_ED25519,
            RefKey::Ecdsa(_, a) => alg == *a,
            RefKey::Rsa(_) => alg == ALG_RSASHA256 || alg == ALG_RSASHA512,
        }
    }

    /// the DNSKEY Public Key field:
    /// RFC 8080 §3 (32 octets), RFC 6605 §4 (x | y without the 0x04 point marker),
    /// RFC 3110 §2 (exponent length (1 or 3 octets) | exponent | modulus)
    pub fn dns_public_key(&self) -> Vec<u8> {
        match self {
            RefKey::Ed25519(k) => k.public_key().as_ref().to_vec(),
            RefKey::Ecdsa(k, _) => {
                let p = k.public_key().as_ref();
                assert_eq!(p[0], 0x04, "uncompressed point expected");
                p[1..].to_vec()
            }
            RefKey::Rsa(k) => {
                let c = signature::RsaPublicKeyComponents::<Vec<u8>>::from(k.public_key());
                let (e, n) = (c.e, c.n);
                let mut o = Vec::new();
                if e.len() > 255 {
                    o.push(0);
                    o.extend_from_slice(&(e.len() as u16).to_be_bytes());
                } else {
                    o.push(e.len() as u8);
                }
                o.extend_from_slice(&e);
                o.extend_from_slice(&n);
                o
            }
        }
    }

    /// signature in the RRSIG Signature field format of `alg`
    pub fn sign(&self, alg: u8, data: &[u8]) -> Vec<u8> {
        assert!(self.supports(alg));
        match self {
            RefKey::Ed25519(k) => k.sign(data).as_ref().to_vec(),
            // RFC 6605 §4: r | s, fixed width
            RefKey::Ecdsa(k, _) => k.sign(&SystemRandom::new(), data).expect("ecdsa sign").as_ref().to_vec(),
            RefKey::Rsa(k) => {
                let enc: &'static dyn signature::RsaEncoding = match alg {
                    ALG_RSASHA256 => &signature::RSA_PKCS1_SHA256,
                    ALG_RSASHA512 => &signature::RSA_PKCS1_SHA512,
                    _ => unreachable!(),
                };
                let mut sig = vec![0u8; k.public_key().modulus_len()];
                k.sign(enc, &SystemRandom::new(), data, &mut sig).expect("rsa sign");
                sig
            }
        }
    }
}

/// verify with ring from DNSKEY-format public key octets; `false` on any malformed input
pub fn verify_with_dns_key(alg: u8, dns_public_key: &[u8], data: &[u8], sig: &[u8]) -> bool {
    match alg {
        ALG_ED25519 => {
            dns_public_key.len() == 32
                && signature::UnparsedPublicKey::new(&signature::ED25519, dns_public_key)
                    .verify(data, sig)
                    .is_ok()
        }
        ALG_ECDSAP256 | ALG_ECDSAP384 => {
            let (ring_alg, len): (&'static dyn signature::VerificationAlgorithm, usize) = if alg == ALG_ECDSAP256 {
                (&signature::ECDSA_P256_SHA256_FIXED, 64)
            } else {
                (&signature::ECDSA_P384_SHA384_FIXED, 96)
            };
            if dns_public_key.len() != len {
                return false;
            }
            let mut p = vec![0x04];
            p.extend_from_slice(dns_public_key);
            signature::UnparsedPublicKey::new(ring_alg, p).verify(data, sig).is_ok()
        }
        ALG_RSASHA1 | 7 | ALG_RSASHA256 | ALG_RSASHA512 => {
            // RFC 3110 §2
            let Some(&first) = dns_public_key.first() else {
                return false;
            };
            let (elen, off) = if first == 0 {
                if dns_public_key.len() < 3 {
                    return false;
                }
                (u16::from_be_bytes([dns_public_key[1], dns_public_key[2]]) as usize, 3)
            } else {
                (first as usize, 1)
            };
            if dns_public_key.len() <= off + elen {
                return false;
            }
            let e = &dns_public_key[off..off + elen];
            let n = &dns_public_key[off + elen..];
            let params: &'static signature::RsaParameters = match alg {
                ALG_RSASHA256 => &signature::RSA_PKCS1_1024_8192_SHA256_FOR_LEGACY_USE_ONLY,
                ALG_RSASHA512 => &signature::RSA_PKCS1_1024_8192_SHA512_FOR_LEGACY_USE_ONLY,
                _ => &signature::RSA_PKCS1_1024_8192_SHA1_FOR_LEGACY_USE_ONLY,
            };
            signature::RsaPublicKeyComponents { n, e }.verify(params, data, sig).is_ok()
        }
        _ => false,
    }
}

// fixture keys of the repository's test data (read-only use)
const ED25519_PK8: &[u8] = include_bytes!("/repo/tests/test-data/test_configs/dnssec/ed25519.pk8");
const P256_PK8: &[u8] = include_bytes!("/repo/tests/test-data/test_configs/dnssec/ecdsa_p256.pk8");
const P384_PK8: &[u8] = include_bytes!("/repo/tests/test-data/test_configs/dnssec/ecdsa_p384.pk8");
const RSA_PK8: &[u8] = include_bytes!("/repo/tests/test-data/test_configs/dnssec/rsa_2048.pk8");

pub fn fixture_pkcs8(alg: u8) -> &'static [u8] {
    match alg {
        ALG_ED25519 => ED25519_PK8,
        ALG_ECDSAP256 => P256_PK8,
        ALG_ECDSAP384 => P384_PK8,
        ALG_RSASHA256 | ALG_RSASHA512 | ALG_RSASHA1 | 7 => RSA_PK8,
        _ => panic!("no fixture key for algorithm {alg}"),
    }
}

/// the fixture key usable with `alg` (shared, created once)
pub fn fixture_key(alg: u8) -> &'static RefKey {
    static ED: OnceLock<RefKey> = OnceLock::new();
    static P256: OnceLock<RefKey> = OnceLock::new();
    static P384: OnceLock<RefKey> = OnceLock::new();
    static RSA: OnceLock<RefKey> = OnceLock::new();
    match alg {
        ALG_ED25519 => ED.get_or_init(|| RefKey::ed25519_from_pkcs8(ED25519_PK8)),
        ALG_ECDSAP256 => P256.get_or_init(|| RefKey::ecdsa_from_pkcs8(P256_PK8, ALG_ECDSAP256)),
        ALG_ECDSAP384 => P384.get_or_init(|| RefKey::ecdsa_from_pkcs8(P384_PK8, ALG_ECDSAP384)),
        ALG_RSASHA256 | ALG_RSASHA512 | ALG_RSASHA1 | 7 => RSA.get_or_init(|| RefKey::rsa_from_pkcs8(RSA_PK8)),
        _ => panic!("no fixture key for algorithm {alg}"),
    }
}

/// deterministic 32-octet Ed25519 seed from a small integer
pub fn seed32(n: u64) -> [u8; 32] {
    let mut out = [0u8; 32];
    for i in 0..4u64 {
        let h = crate::core::fixed_hash(&[b"c05-c06-ed25519-seed", &n.to_le_bytes(), &i.to_le_bytes()]);
        out[(i as usize) * 8..(i as usize) * 8 + 8].copy_from_slice(&h.to_le_bytes());
    }
    out
}
