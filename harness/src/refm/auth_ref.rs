//! Reference model of an authoritative server for one zone, written from the RFC text:
//!
//! * RFC 1034 §4.3.2 step 3 (walk down from the apex: a. whole QNAME matched → data / CNAME
//!   restart; b. referral when a match takes us out of the authoritative data; c. wildcard / name
//!   error), as restated by RFC 4592 §3.2 / §3.3 with the *closest encloser* and the *source of
//!   synthesis* (`*.<closest encloser>`), and RFC 4592 §2.2.2 (empty non-terminals exist, so they
//!   are NODATA and block synthesis);
//! * RFC 4035 §3.1.4.1 / RFC 3658 §2.2.1.1: a DS query at a delegation point is answered from the
//!   parent side of the cut instead of being referred;
//! * RFC 2308 §2.1 / §2.2: NXDOMAIN and NODATA carry the SOA in the authority section;
//! * RFC 1035 §4.1.1 for AA; RFC 8482 for QTYPE=ANY (any subset of the RRsets at the name).
//!
//! It shares no code with hickory. Zones are `owner → type → set of canonical RDATA` (see
//! `wire_lite::rdata_canon`); names are lower-case label lists, leftmost label first.

use std::collections::{BTreeMap, BTreeSet};

use super::canon;
use super::wire_lite::{Name, RC_NOERROR, RC_NXDOMAIN, RC_REFUSED, T_ANY, T_CNAME, T_DS, T_NS};

pub type RrSet = BTreeSet<Vec<u8>>;
/// (owner, type, canonical RDATA)
pub type Rr = (Name, u16, Vec<u8>);

#[derive(Clone, Debug, Default)]
pub struct RefZone {
    pub origin: Name,
    pub nodes: BTreeMap<Name, BTreeMap<u16, RrSet>>,
}

#[derive(Clone, Debug, PartialEq, Eq)]
pub enum NoDataKind {
    /// the name owns records, none of the asked type (and no CNAME)
    Existing,
    /// the name owns nothing but has descendants (RFC 4592 §2.2.2)
    Ent,
    /// the name does not exist, its source of synthesis does but has nothing of the asked type
    /// (RFC 4592 §3.3: "no error, but no data")
    Wildcard { source: Name },
}

/// outcome of one pass of RFC 1034 §4.3.2 step 3 for one name
#[derive(Clone, Debug, PartialEq, Eq)]
pub enum Step {
    OutOfZone,
    Referral { cut: Name },
    /// RRs to copy into the answer section (owner already rewritten when synthesised)
    Data { rrs: BTreeSet<Rr>, via_wildcard: Option<Name>, any: bool },
    Cname { rr: Rr, target: Name, via_wildcard: Option<Name> },
    NoData { kind: NoDataKind },
    NxDomain { closest_encloser: Name },
}

/// which branch of the algorithm decided the *original* query (for class labels / NT rule)
#[derive(Clone, Copy, Debug, PartialEq, Eq, PartialOrd, Ord)]
pub enum PathKind {
    OutOfZone,
    ExactHost,
    ExactApex,
    ExactAny,
    DsAtCut,
    Cname,
    Referral,
    Wildcard,
    WildcardCname,
    WildcardNoData,
    NoDataExisting,
    NoDataEnt,
    NxDomain,
}

impl PathKind {
    pub fn label(self) -> &'static str {
        match self {
            PathKind::OutOfZone => "out-of-zone",
            PathKind::ExactHost => "exact-host",
            PathKind::ExactApex => "exact-apex",
            PathKind::ExactAny => "exact-any",
            PathKind::DsAtCut => "ds-at-cut",
            PathKind::Cname => "cname",
            PathKind::Referral => "referral",
            PathKind::Wildcard => "wildcard",
            PathKind::WildcardCname => "wildcard-cname",
            PathKind::WildcardNoData => "wildcard-nodata",
            PathKind::NoDataExisting => "nodata-existing",
            PathKind::NoDataEnt => "nodata-ent",
            PathKind::NxDomain => "nxdomain",
        }
    }
}

#[derive(Clone, Debug, PartialEq, Eq)]
pub enum AuthExpect {
    /// the statement fixes nothing about the authority section here
    Unspecified,
    /// SOA of the zone (negative answers, RFC 2308)
    Soa,
    /// exactly the NS RRset of this cut, and no SOA (RFC 1034 §4.3.2 step 3b)
    Referral { cut: Name, ns: BTreeSet<Rr> },
}

#[derive(Clone, Debug)]
pub struct Expect {
    pub path: PathKind,
    /// acceptable RCODEs (more than one only where RFC 1034 and RFC 2308/6604 disagree)
    pub rcodes: Vec<u16>,
    /// None: not fixed by the texts used
    pub aa: Option<bool>,
    /// CNAME RRs followed inside the zone, in order
    pub chain: Vec<Rr>,
    /// how many leading chain elements must be present (== chain.len() unless loop / over bound)
    pub chain_min: usize,
    /// RRs after the chain (or the whole answer when there is no chain)
    pub terminal: BTreeSet<Rr>,
    /// QTYPE=ANY: `terminal` is an upper bound for the records owned by QNAME
    pub any: bool,
    pub authority: AuthExpect,
    /// the name at which the last pass ran, and its outcome
    pub final_name: Name,
    pub final_step: Step,
    /// QNAME exists (owns data or is an empty non-terminal)
    pub name_exists: bool,
    /// the original QNAME was answered through a wildcard
    pub direct_wildcard: bool,
    /// the original query ended negative without any CNAME (NODATA / NXDOMAIN)
    pub direct_negative: bool,
    pub chain_loop: bool,
}

/// the server's documented bound on RRsets in a chased chain
pub const CHAIN_BOUND: usize = 8;

pub fn wildcard_of(encloser: &[Vec<u8>]) -> Name {
    let mut w = Vec::with_capacity(encloser.len() + 1);
    w.push(b"*".to_vec());
    w.extend(encloser.iter().cloned());
    w
}

impl RefZone {
    pub fn new(origin: Name) -> Self {
        Self {
            origin: canon::lower(&origin),
            nodes: BTreeMap::new(),
        }
    }

    pub fn add(&mut self, owner: &[Vec<u8>], rtype: u16, rdata: Vec<u8>) {
        self.nodes
            .entry(canon::lower(owner))
            .or_default()
            .entry(rtype)
            .or_default()
            .insert(rdata);
    }

    pub fn in_zone(&self, name: &[Vec<u8>]) -> bool {
        canon::is_suffix(&self.origin, name)
    }

    pub fn has_data(&self, name: &[Vec<u8>]) -> bool {
        self.nodes.get(name).is_some_and(|n| !n.is_empty())
    }

    pub fn rrset(&self, name: &[Vec<u8>], rtype: u16) -> Option<&RrSet> {
        self.nodes.get(name).and_then(|n| n.get(&rtype))
    }

    /// a zone cut: NS at a name other than the apex
    pub fn is_cut(&self, name: &[Vec<u8>]) -> bool {
        name != self.origin.as_slice() && self.rrset(name, T_NS).is_some()
    }

    /// RFC 4592 §2.2: a name exists if it owns records or has a descendant that does
    pub fn exists(&self, name: &[Vec<u8>]) -> bool {
        self.has_data(name)
            || self
                .nodes
                .iter()
                .any(|(k, v)| !v.is_empty() && k.len() > name.len() && canon::is_suffix(name, k))
    }

    /// ancestors-or-self of `name` inside the zone, from the apex downwards
    fn path_from_apex<'a>(&self, name: &'a [Vec<u8>]) -> impl Iterator<Item = &'a [Vec<u8>]> + 'a {
        let ol = self.origin.len();
        let nl = name.len();
        (0..=nl - ol).map(move |extra| &name[nl - ol - extra..])
    }

    /// RFC 1034 §4.3.2 step 3b: the first cut met when matching down, label by label, from the
    /// apex towards `name` — that is the cut closest to the apex
    pub fn cut_on_path(&self, name: &[Vec<u8>]) -> Option<Name> {
        if !self.in_zone(name) {
            return None;
        }
        self.path_from_apex(name).find(|n| self.is_cut(n)).map(|n| n.to_vec())
    }

    /// RFC 4592 §3.3.1: the longest existing ancestor of `name` (the apex always exists)
    pub fn closest_encloser(&self, name: &[Vec<u8>]) -> Name {
        let mut best = self.origin.clone();
        for n in self.path_from_apex(name) {
            if n.len() < name.len() && self.exists(n) {
                best = n.to_vec();
            }
        }
        best
    }

    /// record is non-authoritative for this zone because it sits below a cut, or at a cut and is
    /// not parent-side data (RFC 4035 §2.2/§3.1.4: only DS and NSEC/RRSIG(DS,NSEC) belong to the parent)
    pub fn occluded(&self, owner: &[Vec<u8>], rtype: u16) -> bool {
        match self.cut_on_path(owner) {
            None => false,
            Some(cut) => {
                if cut.len() < owner.len() {
                    true
                } else {
                    !matches!(rtype, T_DS | T_NS | super::wire_lite::T_NSEC | super::wire_lite::T_RRSIG)
                }
            }
        }
    }

    fn match_node(
        &self,
        node: &BTreeMap<u16, RrSet>,
        owner: &[Vec<u8>],
        qtype: u16,
        via_wildcard: Option<Name>,
    ) -> Option<Step> {
        let own = |t: u16, set: &RrSet| -> BTreeSet<Rr> { set.iter().map(|rd| (owner.to_vec(), t, rd.clone())).collect() };
        if qtype == T_ANY {
            // RFC 1034 §4.3.2 3a with QTYPE=*: every RR at the node matches (also a CNAME, so no restart)
            let mut rrs = BTreeSet::new();
            for (t, set) in node {
                rrs.extend(own(*t, set));
            }
            return Some(Step::Data {
                rrs,
                via_wildcard,
                any: true,
            });
        }
        if let Some(set) = node.get(&qtype) {
            return Some(Step::Data {
                rrs: own(qtype, set),
                via_wildcard,
                any: false,
            });
        }
        if let Some(set) = node.get(&T_CNAME) {
            // "If the data at the node is a CNAME, and QTYPE doesn't match CNAME, copy the CNAME RR
            // into the answer section, change QNAME to the canonical name, and go back to step 1"
            let rd = set.iter().next()?.clone();
            let target = name_from_wire(&rd);
            return Some(Step::Cname {
                rr: (owner.to_vec(), T_CNAME, rd),
                target,
                via_wildcard,
            });
        }
        None
    }

    /// one pass of step 3 for `name`
    pub fn step(&self, name: &[Vec<u8>], qtype: u16) -> Step {
        if !self.in_zone(name) {
            return Step::OutOfZone;
        }
        // 3b. referral at the first cut on the way down — except a DS query for the cut itself
        if let Some(cut) = self.cut_on_path(name) {
            let ds_at_cut = qtype == T_DS && cut.as_slice() == name;
            if !ds_at_cut {
                return Step::Referral { cut };
            }
        }
        // 3a. the whole of QNAME is matched
        if let Some(node) = self.nodes.get(name).filter(|n| !n.is_empty()) {
            return self
                .match_node(node, name, qtype, None)
                .unwrap_or(Step::NoData { kind: NoDataKind::Existing });
        }
        if self.exists(name) {
            return Step::NoData { kind: NoDataKind::Ent };
        }
        // 3c. look for "*" at the closest encloser only (RFC 4592 §3.3.1, §4.3.2 restated)
        let encloser = self.closest_encloser(name);
        let source = wildcard_of(&encloser);
        if let Some(node) = self.nodes.get(&source).filter(|n| !n.is_empty()) {
            return self
                .match_node(node, name, qtype, Some(source.clone()))
                .unwrap_or(Step::NoData {
                    kind: NoDataKind::Wildcard { source },
                });
        }
        if self.exists(&source) {
            // the source of synthesis exists as an empty non-terminal: it matches, with no data
            return Step::NoData {
                kind: NoDataKind::Wildcard { source },
            };
        }
        Step::NxDomain {
            closest_encloser: encloser,
        }
    }

    /// the complete expectation for (QNAME, QTYPE)
    pub fn answer(&self, qname: &[Vec<u8>], qtype: u16) -> Expect {
        let qname = canon::lower(qname);
        let name_exists = self.in_zone(&qname) && self.exists(&qname);
        let mut chain: Vec<Rr> = Vec::new();
        let mut visited: BTreeSet<Name> = BTreeSet::new();
        visited.insert(qname.clone());
        let mut name = qname.clone();
        let mut chain_loop = false;
        let mut first_via_wildcard = false;
        let final_step = loop {
            let st = self.step(&name, qtype);
            match st {
                Step::Cname {
                    rr,
                    target,
                    via_wildcard,
                } => {
                    if chain.is_empty() {
                        first_via_wildcard = via_wildcard.is_some();
                    }
                    chain.push(rr.clone());
                    if !visited.insert(target.clone()) {
                        chain_loop = true;
                        break Step::Cname {
                            rr,
                            target,
                            via_wildcard,
                        };
                    }
                    name = target;
                }
                other => break other,
            }
        };

        if chain.is_empty() {
            // answered (or denied) at QNAME itself
            let (path, rcodes, aa, terminal, any, authority, dw, dn) = match &final_step {
                Step::OutOfZone => (
                    PathKind::OutOfZone,
                    vec![RC_REFUSED],
                    None,
                    BTreeSet::new(),
                    false,
                    AuthExpect::Unspecified,
                    false,
                    false,
                ),
                Step::Referral { cut } => {
                    let ns = self
                        .rrset(cut, T_NS)
                        .map(|s| s.iter().map(|rd| (cut.clone(), T_NS, rd.clone())).collect())
                        .unwrap_or_default();
                    (
                        PathKind::Referral,
                        vec![RC_NOERROR],
                        Some(false),
                        BTreeSet::new(),
                        false,
                        AuthExpect::Referral { cut: cut.clone(), ns },
                        false,
                        false,
                    )
                }
                Step::Data { rrs, via_wildcard, any } => {
                    let path = if via_wildcard.is_some() {
                        PathKind::Wildcard
                    } else if *any {
                        PathKind::ExactAny
                    } else if qtype == T_DS && self.is_cut(&qname) {
                        PathKind::DsAtCut
                    } else if qname == self.origin {
                        PathKind::ExactApex
                    } else {
                        PathKind::ExactHost
                    };
                    (
                        path,
                        vec![RC_NOERROR],
                        Some(true),
                        rrs.clone(),
                        *any,
                        AuthExpect::Unspecified,
                        via_wildcard.is_some(),
                        false,
                    )
                }
                Step::NoData { kind } => {
                    let path = match kind {
                        NoDataKind::Existing if qtype == T_DS && self.is_cut(&qname) => PathKind::DsAtCut,
                        NoDataKind::Existing => PathKind::NoDataExisting,
                        NoDataKind::Ent => PathKind::NoDataEnt,
                        NoDataKind::Wildcard { .. } => PathKind::WildcardNoData,
                    };
                    (
                        path,
                        vec![RC_NOERROR],
                        Some(true),
                        BTreeSet::new(),
                        false,
                        AuthExpect::Soa,
                        matches!(kind, NoDataKind::Wildcard { .. }),
                        true,
                    )
                }
                Step::NxDomain { .. } => (
                    PathKind::NxDomain,
                    vec![RC_NXDOMAIN],
                    Some(true),
                    BTreeSet::new(),
                    false,
                    AuthExpect::Soa,
                    false,
                    true,
                ),
                Step::Cname { .. } => unreachable!("a CNAME step always extends the chain"),
            };
            return Expect {
                path,
                rcodes,
                aa,
                chain,
                chain_min: 0,
                terminal,
                any,
                authority,
                final_name: name,
                final_step,
                name_exists,
                direct_wildcard: dw,
                direct_negative: dn,
                chain_loop,
            };
        }

        // at least one CNAME was followed. RFC 1035 §4.1.1: AA refers to the first owner name in the
        // answer section, which is authoritative data of this zone.
        let (rcodes, aa, terminal) = match &final_step {
            Step::Data { rrs, .. } => (vec![RC_NOERROR], Some(true), rrs.clone()),
            // RFC 1034 §4.3.2 3c: a name error is only set "if the name is original"; RFC 2308 §2.1 /
            // RFC 6604 §3 ask for NXDOMAIN from the last cycle. The statement cites RFC 1034: accept both.
            Step::NxDomain { .. } => (vec![RC_NOERROR, RC_NXDOMAIN], Some(true), BTreeSet::new()),
            Step::NoData { .. } | Step::OutOfZone | Step::Cname { .. } => (vec![RC_NOERROR], Some(true), BTreeSet::new()),
            // restarted query left the authoritative data: referral material is added, AA not fixed
            Step::Referral { .. } => (vec![RC_NOERROR], None, BTreeSet::new()),
        };
        let total = chain.len() + usize::from(!terminal.is_empty());
        let chain_min = if chain_loop {
            1
        } else if total > CHAIN_BOUND {
            CHAIN_BOUND - 1
        } else {
            chain.len()
        };
        Expect {
            path: if first_via_wildcard {
                PathKind::WildcardCname
            } else {
                PathKind::Cname
            },
            rcodes,
            aa,
            chain,
            chain_min,
            terminal,
            any: false,
            authority: AuthExpect::Unspecified,
            final_name: name,
            final_step,
            name_exists,
            direct_wildcard: first_via_wildcard,
            direct_negative: false,
            chain_loop,
        }
    }

    /// all acceptable answer sections (as sets) for an expectation without ANY semantics: the full
    /// chain plus the terminal RRset; and, only for loops and chains over the documented bound, every
    /// prefix of the chain with at least `chain_min` elements
    pub fn acceptable_answers(e: &Expect) -> Vec<BTreeSet<Rr>> {
        if e.chain.is_empty() {
            return vec![e.terminal.clone()];
        }
        let mut full: BTreeSet<Rr> = e.chain.iter().cloned().collect();
        full.extend(e.terminal.iter().cloned());
        let mut out = vec![full];
        if e.chain_min < e.chain.len() || e.chain_loop {
            for k in (e.chain_min.max(1)..=e.chain.len()).rev() {
                out.push(e.chain[..k].iter().cloned().collect());
            }
        }
        out
    }
}

/// uncompressed wire name → labels
pub fn name_from_wire(rd: &[u8]) -> Name {
    let mut out = Vec::new();
    let mut i = 0;
    while i < rd.len() {
        let l = rd[i] as usize;
        if l == 0 {
            break;
        }
        out.push(rd[i + 1..i + 1 + l].to_vec());
        i += 1 + l;
    }
    out
}

pub fn show_rr(rr: &Rr) -> String {
    let rd = match rr.1 {
        T_NS | T_CNAME => canon::show(&name_from_wire(&rr.2)),
        _ => crate::core::hexser::to_hex(&rr.2),
    };
    format!("{} {} {}", canon::show(&rr.0), super::wire_lite::type_name(rr.1), rd)
}

pub fn show_set(s: &BTreeSet<Rr>) -> String {
    let v: Vec<String> = s.iter().map(show_rr).collect();
    format!("{{{}}}", v.join("; "))
}
