//! Stateless reference verdict for "is this RRset authenticated by one of its RRSIGs right now"
//! (RFC 4035 §5.3.1 – §5.3.3, RFC 4034 §2.1/§3.1, RFC 1982), computed from the raw octets the
//! upstream served: own message splitter, own signed-data reconstruction (`tbs_ref`), signature
//! check with ring directly. Shares no code with hickory.

use crate::refm::canon;
use crate::refm::tbs_ref::{self, SigParams, Window};
use crate::refm::dnssec_wire::{self, ParsedRr, CLASS_IN, T_DNSKEY, T_RRSIG};
use crate::gen::names::MName;

#[derive(Clone, Copy, Debug, PartialEq, Eq)]
pub enum Verdict {
    Secure,
    NotSecure,
    /// everything holds except that a time comparison is undefined in RFC 1982 arithmetic
    Undefined,
}

#[derive(Clone, Debug)]
pub struct RrsetVerdict {
    pub verdict: Verdict,
    /// RFC 4035 §5.3.3 bound from the signature side: max over accepting RRSIGs of
    /// min(Original TTL, expiration − now)
    pub max_ttl: Option<u32>,
    /// first reason for rejection (for messages)
    pub why: String,
}

/// a trust anchor: DNSKEY algorithm number + Public Key field
#[derive(Clone, Debug, PartialEq, Eq)]
pub struct Anchor {
    pub alg: u8,
    pub key: Vec<u8>,
}

struct Sig {
    p: SigParams,
    signature: Vec<u8>,
    class: u16,
}

fn parse_rrsig(msg: &[u8], rr: &ParsedRr) -> Option<Sig> {
    let rd = msg.get(rr.rdata_at..rr.rdata_at + rr.rdlen)?;
    if rd.len() < 19 {
        return None;
    }
    let (signer, p) = dnssec_wire::read_name(msg, rr.rdata_at + 18)?;
    let end = rr.rdata_at + rr.rdlen;
    if p > end {
        return None;
    }
    Some(Sig {
        p: SigParams {
            type_covered: u16::from_be_bytes([rd[0], rd[1]]),
            algorithm: rd[2],
            labels: rd[3],
            original_ttl: u32::from_be_bytes([rd[4], rd[5], rd[6], rd[7]]),
            expiration: u32::from_be_bytes([rd[8], rd[9], rd[10], rd[11]]),
            inception: u32::from_be_bytes([rd[12], rd[13], rd[14], rd[15]]),
            key_tag: u16::from_be_bytes([rd[16], rd[17]]),
            signer: MName::fq(signer),
        },
        signature: msg[p..end].to_vec(),
        class: rr.class,
    })
}

struct Key {
    owner: Vec<Vec<u8>>,
    rdata: Vec<u8>,
}

impl Key {
    fn flags(&self) -> u16 {
        u16::from_be_bytes([self.rdata[0], self.rdata[1]])
    }
    fn protocol(&self) -> u8 {
        self.rdata[2]
    }
    fn alg(&self) -> u8 {
        self.rdata[3]
    }
    fn public(&self) -> &[u8] {
        &self.rdata[4..]
    }
    /// RFC 4034 §2.1.1 bit 7 set (zone key), RFC 5011 §7 bit 8 clear (not revoked), §2.1.2
    /// protocol 3
    fn usable(&self) -> bool {
        self.flags() & 0x0100 != 0 && self.flags() & 0x0080 == 0 && self.protocol() == 3
    }
}

/// One RRset of `msg` (all non-RRSIG answer RRs with this owner and type) against its RRSIGs and
/// a set of usable keys. `check_time = false` gives the verdict with the window test left out.
fn check_rrset(
    msg: &[u8],
    rrs: &[ParsedRr],
    owner: &[Vec<u8>],
    rtype: u16,
    keys: &[&Key],
    // the only name for which the upstream hands out a DNSKEY RRset
    key_zone: &[Vec<u8>],
    now: u32,
    check_time: bool,
) -> RrsetVerdict {
    let members: Vec<&ParsedRr> = rrs
        .iter()
        .filter(|r| r.rtype == rtype && canon::name_eq(&r.owner, owner))
        .collect();
    let no = |why: &str| RrsetVerdict {
        verdict: Verdict::NotSecure,
        max_ttl: None,
        why: why.to_string(),
    };
    if members.is_empty() {
        return no("empty RRset");
    }
    // RFC 4035 §5.3.1 bullet 1: same class (this validator handles IN only)
    if members.iter().any(|r| r.class != CLASS_IN) {
        return no("a member is not class IN");
    }
    let mut canon_rd = Vec::new();
    for m in &members {
        match dnssec_wire::canonical_from_wire(msg, m) {
            Some(c) => canon_rd.push(c),
            None => return no("member RDATA malformed for its type"),
        }
    }
    let mut best = no("no RRSIG with this owner");
    let mut undefined = false;
    let mut max_ttl: Option<u32> = None;
    for rr in rrs.iter().filter(|r| r.rtype == T_RRSIG && canon::name_eq(&r.owner, owner)) {
        let Some(sig) = parse_rrsig(msg, rr) else {
            best = no("RRSIG RDATA malformed");
            continue;
        };
        // §5.3.1 bullet 1 (class), bullet 3 (type covered), bullet 4 (labels)
        if sig.class != CLASS_IN {
            best = no("RRSIG class differs");
            continue;
        }
        if sig.p.type_covered != rtype {
            continue; // covers another RRset
        }
        if sig.p.labels as usize > owner.len() {
            best = no("Labels above the owner's label count");
            continue;
        }
        // §5.3.1 bullets 5, 6 in RFC 1982 arithmetic (RFC 4034 §3.1.5)
        let window = tbs_ref::in_window(sig.p.inception, sig.p.expiration, now);
        if check_time && window == Window::Outside {
            best = no("outside the validity window");
            continue;
        }
        // §5.3.1 bullets 7, 8: a key with the RRSIG's signer name, algorithm and key tag, zone
        // flag set; RFC 5011: not revoked
        let Ok(data) = tbs_ref::signed_data(owner, CLASS_IN, &sig.p, canon_rd.clone(), true) else {
            best = no("Labels above the owner's label count");
            continue;
        };
        let data = data.bytes();
        let mut accepted = false;
        if !canon::name_eq(&sig.p.signer.labels, key_zone) {
            best = no("no DNSKEY RRset obtainable at the RRSIG's signer name");
            continue;
        }
        for k in keys {
            if !canon::name_eq(&k.owner, &sig.p.signer.labels) || k.alg() != sig.p.algorithm {
                continue;
            }
            if tbs_ref::key_tag(&k.rdata) != sig.p.key_tag {
                continue;
            }
            if !k.usable() {
                best = no("matching DNSKEY is revoked / not a zone key / protocol != 3");
                continue;
            }
            if tbs_ref::verify_with_dns_key(k.alg(), k.public(), &data, &sig.signature) {
                accepted = true;
                break;
            }
            best = no("signature does not verify over the RFC 4035 §5.3.2 octets");
        }
        if !accepted {
            if best.why == "no RRSIG with this owner" {
                best = no("no trusted DNSKEY matches signer/algorithm/key tag");
            }
            continue;
        }
        if check_time && window == Window::Undefined {
            undefined = true;
            continue;
        }
        let remaining = sig.p.expiration.wrapping_sub(now);
        let bound = sig.p.original_ttl.min(remaining);
        max_ttl = Some(max_ttl.map_or(bound, |m: u32| m.max(bound)));
    }
    if max_ttl.is_some() {
        RrsetVerdict {
            verdict: Verdict::Secure,
            max_ttl,
            why: String::new(),
        }
    } else if undefined {
        RrsetVerdict {
            verdict: Verdict::Undefined,
            max_ttl: None,
            why: "RFC 1982 comparison undefined".into(),
        }
    } else {
        best
    }
}

pub struct Reference {
    pub target_rrs: Option<Vec<ParsedRr>>,
    /// why no key is available, when that is the case
    pub key_note: String,
    keys: Vec<Key>,
    trusted: Vec<bool>,
    trusted_notime: Vec<bool>,
    zone: Vec<Vec<u8>>,
}

impl Reference {
    /// `key_msg`: the response the upstream gives for <zone, DNSKEY> (None = it gives an error).
    /// Keys are trusted when they are a configured anchor (public key + algorithm), or when the
    /// DNSKEY RRset they belong to carries a currently valid RRSIG by such an anchor key
    /// (RFC 4035 §5.2 / §5.3 applied to the apex DNSKEY RRset).
    pub fn new(target_msg: &[u8], key_msg: Option<&[u8]>, zone: &[Vec<u8>], anchors: &[Anchor], now: u32) -> Self {
        let target_rrs = dnssec_wire::parse_answers(target_msg);
        let mut keys = Vec::new();
        let mut key_note = String::new();
        let mut trusted = Vec::new();
        let mut trusted_notime = Vec::new();
        match key_msg.and_then(|m| dnssec_wire::parse_answers(m).map(|r| (m, r))) {
            None => key_note = "no decodable DNSKEY response".into(),
            Some((m, rrs)) => {
                // the class of a DNSKEY RR is not part of the property text: any class is taken
                for r in rrs.iter().filter(|r| r.rtype == T_DNSKEY && r.rdlen >= 4) {
                    keys.push(Key {
                        owner: r.owner.clone(),
                        rdata: m[r.rdata_at..r.rdata_at + r.rdlen].to_vec(),
                    });
                }
                let is_anchor = |k: &Key| anchors.iter().any(|a| a.alg == k.alg() && a.key == k.public());
                let anchor_keys: Vec<&Key> = keys.iter().filter(|k| is_anchor(k)).collect();
                for k in &keys {
                    if is_anchor(k) {
                        trusted.push(true);
                        trusted_notime.push(true);
                        continue;
                    }
                    let same_owner: Vec<&Key> = anchor_keys.iter().copied().filter(|a| canon::name_eq(&a.owner, &k.owner)).collect();
                    let v = check_rrset(m, &rrs, &k.owner, T_DNSKEY, &same_owner, zone, now, true);
                    let v2 = check_rrset(m, &rrs, &k.owner, T_DNSKEY, &same_owner, zone, now, false);
                    trusted.push(v.verdict == Verdict::Secure);
                    trusted_notime.push(v2.verdict == Verdict::Secure);
                }
            }
        }
        Self {
            target_rrs,
            key_note,
            keys,
            trusted,
            trusted_notime,
            zone: zone.to_vec(),
        }
    }

    /// the DNSKEY response held keys and every one of them is trusted at this clock (what a
    /// validator would cache as a Secure DNSKEY RRset)
    pub fn key_set_trusted(&self) -> bool {
        !self.keys.is_empty() && self.trusted.iter().all(|t| *t)
    }

    /// verdict for the RRset <owner, rtype> of the target response; keys are taken from the
    /// DNSKEY response only if that response was given for `key_qname` = the RRSIG's signer (the
    /// caller passes the zone name the upstream answers DNSKEY queries for)
    pub fn rrset(&self, target_msg: &[u8], owner: &[Vec<u8>], rtype: u16, now: u32, check_time: bool) -> RrsetVerdict {
        self.rrset2(target_msg, owner, rtype, now, check_time, check_time)
    }

    /// as `rrset`, with the window test selectable separately for the RRset's own RRSIG
    /// (`check_time`) and for the RRSIG over the DNSKEY RRset (`check_key_time`)
    pub fn rrset2(&self, target_msg: &[u8], owner: &[Vec<u8>], rtype: u16, now: u32, check_time: bool, check_key_time: bool) -> RrsetVerdict {
        let Some(rrs) = &self.target_rrs else {
            return RrsetVerdict {
                verdict: Verdict::NotSecure,
                max_ttl: None,
                why: "target response is not a well-formed message".into(),
            };
        };
        let flags = if check_key_time { &self.trusted } else { &self.trusted_notime };
        let keys: Vec<&Key> = self.keys.iter().zip(flags).filter(|(_, t)| **t).map(|(k, _)| k).collect();
        let mut v = check_rrset(target_msg, rrs, owner, rtype, &keys, &self.zone, now, check_time);
        if v.verdict == Verdict::NotSecure && keys.is_empty() && !self.key_note.is_empty() {
            v.why = format!("{} ({})", v.why, self.key_note);
        }
        v
    }
}
