//! RFC 4034 §6.1 canonical name order and case-folded equality over raw label octets.

use std::cmp::Ordering;

pub type Labels = Vec<Vec<u8>>;

#[inline]
pub fn fold(b: u8) -> u8 {
    if b.is_ascii_uppercase() {
        b + 0x20
    } else {
        b
    }
}

pub fn label_eq(a: &[u8], b: &[u8]) -> bool {
    a.len() == b.len() && a.iter().zip(b).all(|(x, y)| fold(*x) == fold(*y))
}

/// names are equal iff same number of labels and each label equal after ASCII case fold
pub fn name_eq(a: &[Vec<u8>], b: &[Vec<u8>]) -> bool {
    a.len() == b.len() && a.iter().zip(b).all(|(x, y)| label_eq(x, y))
}

/// a label as an unsigned left-justified octet string, upper case folded to lower; absence of
/// an octet sorts before a zero octet
pub fn label_cmp(a: &[u8], b: &[u8]) -> Ordering {
    let fa: Vec<u8> = a.iter().map(|x| fold(*x)).collect();
    let fb: Vec<u8> = b.iter().map(|x| fold(*x)).collect();
    fa.cmp(&fb)
}

/// RFC 4034 §6.1: sort by the most significant (rightmost) label first
pub fn name_cmp(a: &[Vec<u8>], b: &[Vec<u8>]) -> Ordering {
    let mut ia = a.iter().rev();
    let mut ib = b.iter().rev();
    loop {
        match (ia.next(), ib.next()) {
            (None, None) => return Ordering::Equal,
            (None, Some(_)) => return Ordering::Less,
            (Some(_), None) => return Ordering::Greater,
            (Some(x), Some(y)) => match label_cmp(x, y) {
                Ordering::Equal => {}
                o => return o,
            },
        }
    }
}

pub fn wire_len(labels: &[Vec<u8>]) -> usize {
    labels.iter().map(|l| l.len() + 1).sum::<usize>() + 1
}

pub fn lower(labels: &[Vec<u8>]) -> Labels {
    labels.iter().map(|l| l.iter().map(|b| fold(*b)).collect()).collect()
}

/// is `zone` an ancestor-or-self of `name` (case-insensitive)
pub fn is_suffix(zone: &[Vec<u8>], name: &[Vec<u8>]) -> bool {
    zone.len() <= name.len() && name_eq(zone, &name[name.len() - zone.len()..])
}

/// presentation form for evidence samples (RFC 1035 §5.1 style, decimal escapes)
pub fn show(labels: &[Vec<u8>]) -> String {
    if labels.is_empty() {
        return ".".into();
    }
    let mut s = String::new();
    for l in labels {
        for &b in l {
            match b {
                b'.' | b'\\' => {
                    s.push('\\');
                    s.push(b as char)
                }
                0x21..=0x7e => s.push(b as char),
                _ => s.push_str(&format!("\\{:03}", b)),
            }
        }
        s.push('.');
    }
    s
}
