//! Minimal, independent DNS wire reader/writer (RFC 1035 §4.1) used by the simulated-network
//! checks (C16, C18): header, question section, plain resource records. Shares no code with
//! hickory. Names are lists of raw labels (case preserved); nothing is compressed on output,
//! compression pointers (RFC 1035 §4.1.4) are followed on input.

/// QR bit
pub const F_QR: u16 = 0x8000;
/// AA bit
pub const F_AA: u16 = 0x0400;
/// TC bit
pub const F_TC: u16 = 0x0200;
/// RD bit
pub const F_RD: u16 = 0x0100;
/// RA bit
pub const F_RA: u16 = 0x0080;

pub const T_A: u16 = 1;
pub const T_SOA: u16 = 6;
pub const T_TXT: u16 = 16;
pub const T_AAAA: u16 = 28;
pub const C_IN: u16 = 1;

pub type Labels = Vec<Vec<u8>>;

#[derive(Clone, Debug, PartialEq, Eq)]
pub struct Question {
    pub name: Labels,
    pub qtype: u16,
    pub qclass: u16,
}

#[derive(Clone, Debug, PartialEq, Eq)]
pub struct Header {
    pub id: u16,
    pub flags: u16,
    pub qd: u16,
    pub an: u16,
    pub ns: u16,
    pub ar: u16,
}

impl Header {
    pub fn rcode(&self) -> u8 {
        (self.flags & 0x000f) as u8
    }
    pub fn is_response(&self) -> bool {
        self.flags & F_QR != 0
    }
    pub fn tc(&self) -> bool {
        self.flags & F_TC != 0
    }
}

#[derive(Clone, Debug, PartialEq, Eq)]
pub struct Rr {
    pub name: Labels,
    pub rtype: u16,
    pub class: u16,
    pub ttl: u32,
    pub rdata: Vec<u8>,
}

fn u16_at(b: &[u8], i: usize) -> Option<u16> {
    Some(u16::from_be_bytes([*b.get(i)?, *b.get(i + 1)?]))
}

pub fn parse_header(b: &[u8]) -> Option<Header> {
    if b.len() < 12 {
        return None;
    }
    Some(Header {
        id: u16_at(b, 0)?,
        flags: u16_at(b, 2)?,
        qd: u16_at(b, 4)?,
        an: u16_at(b, 6)?,
        ns: u16_at(b, 8)?,
        ar: u16_at(b, 10)?,
    })
}

/// read a (possibly compressed) name at `pos`; returns labels and the offset after the name
/// as it appears in the stream (not following pointers)
pub fn parse_name(b: &[u8], mut pos: usize) -> Option<(Labels, usize)> {
    let mut labels = Vec::new();
    let mut after: Option<usize> = None;
    let mut hops = 0usize;
    let mut total = 1usize;
    loop {
        let len = *b.get(pos)? as usize;
        match len & 0xc0 {
            0x00 => {
                if len == 0 {
                    pos += 1;
                    break;
                }
                let l = b.get(pos + 1..pos + 1 + len)?;
                total += len + 1;
                if total > 255 {
                    return None;
                }
                labels.push(l.to_vec());
                pos += 1 + len;
            }
            0xc0 => {
                let ptr = (u16_at(b, pos)? & 0x3fff) as usize;
                if after.is_none() {
                    after = Some(pos + 2);
                }
                hops += 1;
                // RFC 1035 §4.1.4: a pointer refers to a *prior* occurrence
                if hops > 128 || ptr >= pos {
                    return None;
                }
                pos = ptr;
            }
            _ => return None,
        }
    }
    Some((labels, after.unwrap_or(pos)))
}

/// parse the question section; None if the section is malformed
pub fn parse_questions(b: &[u8]) -> Option<(Vec<Question>, usize)> {
    let h = parse_header(b)?;
    let mut pos = 12usize;
    let mut qs = Vec::new();
    for _ in 0..h.qd {
        let (name, p) = parse_name(b, pos)?;
        let qtype = u16_at(b, p)?;
        let qclass = u16_at(b, p + 2)?;
        pos = p + 4;
        qs.push(Question { name, qtype, qclass });
    }
    Some((qs, pos))
}

/// parse `n` resource records starting at `pos`
pub fn parse_rrs(b: &[u8], mut pos: usize, n: usize) -> Option<(Vec<Rr>, usize)> {
    let mut out = Vec::new();
    for _ in 0..n {
        let (name, p) = parse_name(b, pos)?;
        let rtype = u16_at(b, p)?;
        let class = u16_at(b, p + 2)?;
        let ttl = u32::from_be_bytes([*b.get(p + 4)?, *b.get(p + 5)?, *b.get(p + 6)?, *b.get(p + 7)?]);
        let rdlen = u16_at(b, p + 8)? as usize;
        let rdata = b.get(p + 10..p + 10 + rdlen)?.to_vec();
        pos = p + 10 + rdlen;
        out.push(Rr {
            name,
            rtype,
            class,
            ttl,
            rdata,
        });
    }
    Some((out, pos))
}

pub fn put_name(out: &mut Vec<u8>, name: &[Vec<u8>]) {
    for l in name {
        out.push(l.len() as u8);
        out.extend_from_slice(l);
    }
    out.push(0);
}

pub fn put_rr(out: &mut Vec<u8>, rr: &Rr) {
    put_name(out, &rr.name);
    out.extend_from_slice(&rr.rtype.to_be_bytes());
    out.extend_from_slice(&rr.class.to_be_bytes());
    out.extend_from_slice(&rr.ttl.to_be_bytes());
    out.extend_from_slice(&(rr.rdata.len() as u16).to_be_bytes());
    out.extend_from_slice(&rr.rdata);
}

/// build an (uncompressed) message
pub fn build(id: u16, flags: u16, qs: &[Question], an: &[Rr], ns: &[Rr], ar: &[Rr]) -> Vec<u8> {
    let mut out = Vec::with_capacity(96);
    out.extend_from_slice(&id.to_be_bytes());
    out.extend_from_slice(&flags.to_be_bytes());
    out.extend_from_slice(&(qs.len() as u16).to_be_bytes());
    out.extend_from_slice(&(an.len() as u16).to_be_bytes());
    out.extend_from_slice(&(ns.len() as u16).to_be_bytes());
    out.extend_from_slice(&(ar.len() as u16).to_be_bytes());
    for q in qs {
        put_name(&mut out, &q.name);
        out.extend_from_slice(&q.qtype.to_be_bytes());
        out.extend_from_slice(&q.qclass.to_be_bytes());
    }
    for r in an.iter().chain(ns).chain(ar) {
        put_rr(&mut out, r);
    }
    out
}

pub fn a_rr(name: &[Vec<u8>], ttl: u32, addr: [u8; 4]) -> Rr {
    Rr {
        name: name.to_vec(),
        rtype: T_A,
        class: C_IN,
        ttl,
        rdata: addr.to_vec(),
    }
}

/// a minimal SOA for negative answers (RFC 2308 §3): owner = `zone`
pub fn soa_rr(zone: &[Vec<u8>], ttl: u32) -> Rr {
    let mut rdata = Vec::new();
    let mut mname = vec![b"ns".to_vec()];
    mname.extend_from_slice(zone);
    let mut rname = vec![b"hostmaster".to_vec()];
    rname.extend_from_slice(zone);
    put_name(&mut rdata, &mname);
    put_name(&mut rdata, &rname);
    for v in [1u32, 3600, 600, 86400, ttl] {
        rdata.extend_from_slice(&v.to_be_bytes());
    }
    Rr {
        name: zone.to_vec(),
        rtype: T_SOA,
        class: C_IN,
        ttl,
        rdata,
    }
}

/// ASCII case-insensitive label equality (RFC 4343)
pub fn label_eq_nocase(a: &[u8], b: &[u8]) -> bool {
    a.len() == b.len() && a.iter().zip(b).all(|(x, y)| x.eq_ignore_ascii_case(y))
}

pub fn name_eq_nocase(a: &[Vec<u8>], b: &[Vec<u8>]) -> bool {
    a.len() == b.len() && a.iter().zip(b).all(|(x, y)| label_eq_nocase(x, y))
}

pub fn show_name(n: &[Vec<u8>]) -> String {
    if n.is_empty() {
        return ".".into();
    }
    let mut s = String::new();
    for l in n {
        for &b in l {
            if b.is_ascii_alphanumeric() || b == b'-' || b == b'_' {
                s.push(b as char);
            } else {
                s.push_str(&format!("\\{:03}", b));
            }
        }
        s.push('.');
    }
    s
}
