//! Independent wire model: RDATA values of the types used by C05/C06, their plain wire form
//! (RFC 1035 §3.3 and the defining RFC of each type; names uncompressed, case preserved) and
//! their DNSSEC canonical form (RFC 4034 §6.2 as updated by RFC 6840 §5.1), plus a small
//! message builder and an own splitter of raw messages into RRs. Shares no code with hickory.

use serde::{Deserialize, Serialize};

use crate::gen::names::MName;
use crate::refm::canon;

pub const CLASS_IN: u16 = 1;

pub const T_A: u16 = 1;
pub const T_NS: u16 = 2;
pub const T_CNAME: u16 = 5;
pub const T_SOA: u16 = 6;
pub const T_PTR: u16 = 12;
pub const T_HINFO: u16 = 13;
pub const T_MX: u16 = 15;
pub const T_TXT: u16 = 16;
pub const T_AAAA: u16 = 28;
pub const T_SRV: u16 = 33;
pub const T_NAPTR: u16 = 35;
pub const T_DS: u16 = 43;
pub const T_SSHFP: u16 = 44;
pub const T_RRSIG: u16 = 46;
pub const T_NSEC: u16 = 47;
pub const T_DNSKEY: u16 = 48;
pub const T_NSEC3PARAM: u16 = 51;
pub const T_TLSA: u16 = 52;
pub const T_CAA: u16 = 257;

/// Type codes whose RDATA is exactly one domain name and which RFC 4034 §6.2 item 3 lists for
/// down-casing although hickory has no model for them: MD, MF, MB, MG, MR, DNAME.
pub const NAME_ONLY_CODES: &[u16] = &[3, 4, 7, 8, 9, 39];
/// u16 preference/subtype followed by one name, listed in RFC 4034 §6.2: AFSDB, RT, KX.
pub const PREF_NAME_CODES: &[u16] = &[18, 21, 36];
/// two names, listed in RFC 4034 §6.2: MINFO, RP.
pub const TWO_NAME_CODES: &[u16] = &[14, 17];

#[derive(Clone, Debug, PartialEq, Eq, Hash, Serialize, Deserialize)]
pub enum MRdata {
    A(#[serde(with = "crate::core::hexser")] Vec<u8>),
    Aaaa(#[serde(with = "crate::core::hexser")] Vec<u8>),
    Ns(MName),
    Cname(MName),
    Ptr(MName),
    Mx {
        pref: u16,
        exchange: MName,
    },
    Soa {
        mname: MName,
        rname: MName,
        serial: u32,
        refresh: u32,
        retry: u32,
        expire: u32,
        minimum: u32,
    },
    /// one or more character strings, each at most 255 octets
    Txt(#[serde(with = "crate::core::hexvec")] Vec<Vec<u8>>),
    Hinfo {
        #[serde(with = "crate::core::hexser")]
        cpu: Vec<u8>,
        #[serde(with = "crate::core::hexser")]
        os: Vec<u8>,
    },
    Srv {
        priority: u16,
        weight: u16,
        port: u16,
        target: MName,
    },
    Naptr {
        order: u16,
        preference: u16,
        #[serde(with = "crate::core::hexser")]
        flags: Vec<u8>,
        #[serde(with = "crate::core::hexser")]
        services: Vec<u8>,
        #[serde(with = "crate::core::hexser")]
        regexp: Vec<u8>,
        replacement: MName,
    },
    Caa {
        flags: u8,
        #[serde(with = "crate::core::hexser")]
        tag: Vec<u8>,
        #[serde(with = "crate::core::hexser")]
        value: Vec<u8>,
    },
    Tlsa {
        usage: u8,
        selector: u8,
        matching: u8,
        #[serde(with = "crate::core::hexser")]
        data: Vec<u8>,
    },
    Sshfp {
        alg: u8,
        fptype: u8,
        #[serde(with = "crate::core::hexser")]
        fp: Vec<u8>,
    },
    Ds {
        key_tag: u16,
        alg: u8,
        digest_type: u8,
        #[serde(with = "crate::core::hexser")]
        digest: Vec<u8>,
    },
    Dnskey {
        flags: u16,
        alg: u8,
        #[serde(with = "crate::core::hexser")]
        key: Vec<u8>,
    },
    /// `types` sorted ascending without repeats (RFC 4034 §4.1.2 well-formed bitmap)
    Nsec {
        next: MName,
        types: Vec<u16>,
    },
    Nsec3param {
        flags: u8,
        iterations: u16,
        #[serde(with = "crate::core::hexser")]
        salt: Vec<u8>,
    },
    /// RFC 4034 §6.2-listed single-name types unknown to hickory (see NAME_ONLY_CODES)
    NameOnly {
        code: u16,
        name: MName,
    },
    /// RFC 4034 §6.2-listed u16+name types unknown to hickory (see PREF_NAME_CODES)
    PrefName {
        code: u16,
        pref: u16,
        name: MName,
    },
    /// RFC 4034 §6.2-listed two-name types unknown to hickory (see TWO_NAME_CODES)
    TwoNames {
        code: u16,
        a: MName,
        b: MName,
    },
    /// SVCB (64) / HTTPS (65), RFC 9460 §2.2: priority, uncompressed target name, optionally the
    /// `port` parameter. The types are not in the RFC 4034 §6.2 list: the target keeps its case
    Svc {
        code: u16,
        prio: u16,
        target: MName,
        port: Option<u16>,
    },
    /// ANAME (65305, draft-ietf-dnsop-aname; known to hickory): one uncompressed name, not in the
    /// RFC 4034 §6.2 list, so its case is kept
    Aname(MName),
    /// RFC 3597 opaque RDATA of a type with no special canonical rule; never empty
    Opaque {
        code: u16,
        #[serde(with = "crate::core::hexser")]
        data: Vec<u8>,
    },
}

/// RFC 1035 §3.1 name, never compressed; RFC 4034 §6.2 items 1+2/3 when `lower`
pub fn put_name(out: &mut Vec<u8>, labels: &[Vec<u8>], lower: bool) {
    for l in labels {
        debug_assert!(!l.is_empty() && l.len() <= 63);
        out.push(l.len() as u8);
        if lower {
            out.extend(l.iter().map(|b| canon::fold(*b)));
        } else {
            out.extend_from_slice(l);
        }
    }
    out.push(0);
}

fn put_cs(out: &mut Vec<u8>, s: &[u8]) {
    debug_assert!(s.len() <= 255);
    out.push(s.len() as u8);
    out.extend_from_slice(s);
}

/// RFC 4034 §4.1.2 type bit maps: window number, bitmap length (1..32), bitmap; empty windows
/// omitted, trailing zero octets omitted
pub fn type_bitmap(types: &[u16]) -> Vec<u8> {
    let mut out = Vec::new();
    let mut sorted = types.to_vec();
    sorted.sort_unstable();
    sorted.dedup();
    let mut i = 0;
    while i < sorted.len() {
        let window = (sorted[i] >> 8) as u8;
        let mut bits = [0u8; 32];
        let mut maxoct = 0usize;
        while i < sorted.len() && (sorted[i] >> 8) as u8 == window {
            let low = (sorted[i] & 0xff) as usize;
            bits[low / 8] |= 0x80 >> (low % 8);
            maxoct = maxoct.max(low / 8);
            i += 1;
        }
        out.push(window);
        out.push((maxoct + 1) as u8);
        out.extend_from_slice(&bits[..=maxoct]);
    }
    out
}

impl MRdata {
    pub fn rtype(&self) -> u16 {
        match self {
            MRdata::A(_) => T_A,
            MRdata::Aaaa(_) => T_AAAA,
            MRdata::Ns(_) => T_NS,
            MRdata::Cname(_) => T_CNAME,
            MRdata::Ptr(_) => T_PTR,
            MRdata::Mx { .. } => T_MX,
            MRdata::Soa { .. } => T_SOA,
            MRdata::Txt(_) => T_TXT,
            MRdata::Hinfo { .. } => T_HINFO,
            MRdata::Srv { .. } => T_SRV,
            MRdata::Naptr { .. } => T_NAPTR,
            MRdata::Caa { .. } => T_CAA,
            MRdata::Tlsa { .. } => T_TLSA,
            MRdata::Sshfp { .. } => T_SSHFP,
            MRdata::Ds { .. } => T_DS,
            MRdata::Dnskey { .. } => T_DNSKEY,
            MRdata::Nsec { .. } => T_NSEC,
            MRdata::Nsec3param { .. } => T_NSEC3PARAM,
            MRdata::NameOnly { code, .. }
            | MRdata::PrefName { code, .. }
            | MRdata::TwoNames { code, .. }
            | MRdata::Svc { code, .. }
            | MRdata::Opaque { code, .. } => *code,
            MRdata::Aname(_) => 65305,
        }
    }

    pub fn kind(&self) -> &'static str {
        match self {
            MRdata::A(_) => "A",
            MRdata::Aaaa(_) => "AAAA",
            MRdata::Ns(_) => "NS",
            MRdata::Cname(_) => "CNAME",
            MRdata::Ptr(_) => "PTR",
            MRdata::Mx { .. } => "MX",
            MRdata::Soa { .. } => "SOA",
            MRdata::Txt(_) => "TXT",
            MRdata::Hinfo { .. } => "HINFO",
            MRdata::Srv { .. } => "SRV",
            MRdata::Naptr { .. } => "NAPTR",
            MRdata::Caa { .. } => "CAA",
            MRdata::Tlsa { .. } => "TLSA",
            MRdata::Sshfp { .. } => "SSHFP",
            MRdata::Ds { .. } => "DS",
            MRdata::Dnskey { .. } => "DNSKEY",
            MRdata::Nsec { .. } => "NSEC",
            MRdata::Nsec3param { .. } => "NSEC3PARAM",
            MRdata::NameOnly { .. } => "rfc4034-listed-name-only(unknown-to-hickory)",
            MRdata::PrefName { .. } => "rfc4034-listed-pref+name(unknown-to-hickory)",
            MRdata::TwoNames { .. } => "rfc4034-listed-two-names(unknown-to-hickory)",
            MRdata::Svc { .. } => "SVCB/HTTPS",
            MRdata::Aname(_) => "ANAME",
            MRdata::Opaque { .. } => "opaque",
        }
    }

    /// names embedded in the RDATA together with "RFC 4034 §6.2 item 3 (minus RFC 6840 §5.1)
    /// says: lower-case it"
    pub fn embedded_names(&self) -> Vec<(&MName, bool)> {
        match self {
            MRdata::Ns(n) | MRdata::Cname(n) | MRdata::Ptr(n) => vec![(n, true)],
            MRdata::Mx { exchange, .. } => vec![(exchange, true)],
            MRdata::Soa { mname, rname, .. } => vec![(mname, true), (rname, true)],
            MRdata::Srv { target, .. } => vec![(target, true)],
            MRdata::Naptr { replacement, .. } => vec![(replacement, true)],
            // RFC 6840 §5.1: the NSEC next name is NOT down-cased
            MRdata::Nsec { next, .. } => vec![(next, false)],
            // not in the RFC 4034 §6.2 list
            MRdata::Svc { target, .. } => vec![(target, false)],
            MRdata::Aname(n) => vec![(n, false)],
            MRdata::NameOnly { name, .. } | MRdata::PrefName { name, .. } => vec![(name, true)],
            MRdata::TwoNames { a, b, .. } => vec![(a, true), (b, true)],
            _ => vec![],
        }
    }

    /// true when the canonical form differs from the plain form (an embedded name that must be
    /// folded contains an upper-case ASCII letter)
    pub fn case_sensitive_to_canon(&self) -> bool {
        self.embedded_names()
            .iter()
            .any(|(n, fold)| *fold && n.labels.iter().any(|l| l.iter().any(|b| b.is_ascii_uppercase())))
    }

    fn encode(&self, canonical: bool) -> Vec<u8> {
        let mut o = Vec::new();
        // `lc` = this name is folded in the canonical form
        let lc = canonical;
        match self {
            MRdata::A(a) => o.extend_from_slice(a),
            MRdata::Aaaa(a) => o.extend_from_slice(a),
            MRdata::Ns(n) | MRdata::Cname(n) | MRdata::Ptr(n) => put_name(&mut o, &n.labels, lc),
            MRdata::Mx { pref, exchange } => {
                o.extend_from_slice(&pref.to_be_bytes());
                put_name(&mut o, &exchange.labels, lc);
            }
            MRdata::Soa {
                mname,
                rname,
                serial,
                refresh,
                retry,
                expire,
                minimum,
            } => {
                put_name(&mut o, &mname.labels, lc);
                put_name(&mut o, &rname.labels, lc);
                for v in [serial, refresh, retry, expire, minimum] {
                    o.extend_from_slice(&v.to_be_bytes());
                }
            }
            MRdata::Txt(strings) => {
                for s in strings {
                    put_cs(&mut o, s);
                }
            }
            MRdata::Hinfo { cpu, os } => {
                put_cs(&mut o, cpu);
                put_cs(&mut o, os);
            }
            MRdata::Srv {
                priority,
                weight,
                port,
                target,
            } => {
                for v in [priority, weight, port] {
                    o.extend_from_slice(&v.to_be_bytes());
                }
                put_name(&mut o, &target.labels, lc);
            }
            MRdata::Naptr {
                order,
                preference,
                flags,
                services,
                regexp,
                replacement,
            } => {
                o.extend_from_slice(&order.to_be_bytes());
                o.extend_from_slice(&preference.to_be_bytes());
                put_cs(&mut o, flags);
                put_cs(&mut o, services);
                put_cs(&mut o, regexp);
                put_name(&mut o, &replacement.labels, lc);
            }
            MRdata::Caa { flags, tag, value } => {
                o.push(*flags);
                put_cs(&mut o, tag);
                o.extend_from_slice(value);
            }
            MRdata::Tlsa {
                usage,
                selector,
                matching,
                data,
            } => {
                o.extend_from_slice(&[*usage, *selector, *matching]);
                o.extend_from_slice(data);
            }
            MRdata::Sshfp { alg, fptype, fp } => {
                o.extend_from_slice(&[*alg, *fptype]);
                o.extend_from_slice(fp);
            }
            MRdata::Ds {
                key_tag,
                alg,
                digest_type,
                digest,
            } => {
                o.extend_from_slice(&key_tag.to_be_bytes());
                o.extend_from_slice(&[*alg, *digest_type]);
                o.extend_from_slice(digest);
            }
            MRdata::Dnskey { flags, alg, key } => {
                o.extend_from_slice(&flags.to_be_bytes());
                o.push(3); // RFC 4034 §2.1.2
                o.push(*alg);
                o.extend_from_slice(key);
            }
            MRdata::Nsec { next, types } => {
                // RFC 6840 §5.1: not folded
                put_name(&mut o, &next.labels, false);
                o.extend_from_slice(&type_bitmap(types));
            }
            MRdata::Nsec3param { flags, iterations, salt } => {
                o.push(1); // SHA-1
                o.push(*flags);
                o.extend_from_slice(&iterations.to_be_bytes());
                put_cs(&mut o, salt);
            }
            MRdata::NameOnly { name, .. } => put_name(&mut o, &name.labels, lc),
            MRdata::PrefName { pref, name, .. } => {
                o.extend_from_slice(&pref.to_be_bytes());
                put_name(&mut o, &name.labels, lc);
            }
            MRdata::TwoNames { a, b, .. } => {
                put_name(&mut o, &a.labels, lc);
                put_name(&mut o, &b.labels, lc);
            }
            MRdata::Svc { prio, target, port, .. } => {
                o.extend_from_slice(&prio.to_be_bytes());
                put_name(&mut o, &target.labels, false);
                if let Some(p) = port {
                    o.extend_from_slice(&[0, 3, 0, 2]);
                    o.extend_from_slice(&p.to_be_bytes());
                }
            }
            MRdata::Aname(n) => put_name(&mut o, &n.labels, false),
            MRdata::Opaque { data, .. } => o.extend_from_slice(data),
        }
        o
    }

    /// plain wire RDATA: names as given, no compression
    pub fn raw(&self) -> Vec<u8> {
        self.encode(false)
    }

    /// RFC 4034 §6.2 canonical RDATA (items 1 and 3; RFC 6840 §5.1 exempts NSEC)
    pub fn canonical(&self) -> Vec<u8> {
        self.encode(true)
    }

    pub fn show(&self) -> String {
        let n = |m: &MName| m.show();
        match self {
            MRdata::A(a) => format!("A {}", a.iter().map(|b| b.to_string()).collect::<Vec<_>>().join(".")),
            MRdata::Aaaa(a) => format!("AAAA {}", crate::core::hexser::to_hex(a)),
            MRdata::Ns(x) => format!("NS {}", n(x)),
            MRdata::Cname(x) => format!("CNAME {}", n(x)),
            MRdata::Ptr(x) => format!("PTR {}", n(x)),
            MRdata::Mx { pref, exchange } => format!("MX {pref} {}", n(exchange)),
            MRdata::Soa { mname, rname, serial, .. } => format!("SOA {} {} {serial} ..", n(mname), n(rname)),
            MRdata::Srv {
                priority,
                weight,
                port,
                target,
            } => format!("SRV {priority} {weight} {port} {}", n(target)),
            MRdata::Naptr { order, replacement, .. } => format!("NAPTR {order} .. {}", n(replacement)),
            MRdata::Nsec { next, types } => format!("NSEC {} {:?}", n(next), types),
            MRdata::NameOnly { code, name } => format!("TYPE{code} {}", n(name)),
            MRdata::PrefName { code, pref, name } => format!("TYPE{code} {pref} {}", n(name)),
            MRdata::TwoNames { code, a, b } => format!("TYPE{code} {} {}", n(a), n(b)),
            MRdata::Aname(x) => format!("ANAME {}", n(x)),
            MRdata::Svc { code, prio, target, port } => format!("TYPE{code} {prio} {} port={port:?}", n(target)),
            other => format!("{} \\# {}", other.kind(), crate::core::hexser::to_hex(&other.raw())),
        }
    }
}

/// one RR in plain wire form (owner uncompressed, case preserved)
pub fn rr_wire(owner: &[Vec<u8>], rtype: u16, class: u16, ttl: u32, rdata: &[u8]) -> Vec<u8> {
    let mut o = Vec::with_capacity(owner.len() * 8 + 11 + rdata.len());
    put_name(&mut o, owner, false);
    o.extend_from_slice(&rtype.to_be_bytes());
    o.extend_from_slice(&class.to_be_bytes());
    o.extend_from_slice(&ttl.to_be_bytes());
    o.extend_from_slice(&(rdata.len() as u16).to_be_bytes());
    o.extend_from_slice(rdata);
    o
}

// ---------------------------------------------------------------------------------------------
// raw resource records and messages (C06 serves these to the validator)

#[derive(Clone, Debug, PartialEq, Eq, Hash, Serialize, Deserialize)]
pub struct RawRr {
    pub owner: MName,
    pub rtype: u16,
    pub class: u16,
    pub ttl: u32,
    #[serde(with = "crate::core::hexser")]
    pub rdata: Vec<u8>,
}

impl RawRr {
    pub fn wire(&self) -> Vec<u8> {
        rr_wire(&self.owner.labels, self.rtype, self.class, self.ttl, &self.rdata)
    }
}

/// RFC 1035 §4.1: a response with one question and only an answer section. Returns the message
/// and the offset at which the answer section starts.
pub fn response_message(id: u16, qname: &[Vec<u8>], qtype: u16, answers: &[RawRr]) -> (Vec<u8>, usize) {
    let mut m = Vec::new();
    m.extend_from_slice(&id.to_be_bytes());
    // QR=1, opcode 0, AA=1, RD=1 | RA=1, rcode 0
    m.extend_from_slice(&[0x85, 0x80]);
    m.extend_from_slice(&1u16.to_be_bytes());
    m.extend_from_slice(&(answers.len() as u16).to_be_bytes());
    m.extend_from_slice(&0u16.to_be_bytes());
    m.extend_from_slice(&0u16.to_be_bytes());
    put_name(&mut m, qname, false);
    m.extend_from_slice(&qtype.to_be_bytes());
    m.extend_from_slice(&CLASS_IN.to_be_bytes());
    let start = m.len();
    for rr in answers {
        m.extend_from_slice(&rr.wire());
    }
    (m, start)
}

/// RFC 1035 §4.1.4 name reader with pointer following (pointers must point backwards; bounded)
pub fn read_name(msg: &[u8], mut pos: usize) -> Option<(Vec<Vec<u8>>, usize)> {
    let mut labels = Vec::new();
    let mut end: Option<usize> = None;
    let mut hops = 0;
    let mut total = 1usize;
    loop {
        let b = *msg.get(pos)?;
        match b & 0xC0 {
            0x00 => {
                if b == 0 {
                    pos += 1;
                    break;
                }
                let l = b as usize;
                let s = msg.get(pos + 1..pos + 1 + l)?;
                total += l + 1;
                if total > 255 {
                    return None;
                }
                labels.push(s.to_vec());
                pos += 1 + l;
            }
            0xC0 => {
                let b2 = *msg.get(pos + 1)?;
                let target = (((b & 0x3F) as usize) << 8) | b2 as usize;
                if end.is_none() {
                    end = Some(pos + 2);
                }
                if target >= pos {
                    return None;
                }
                hops += 1;
                if hops > 128 {
                    return None;
                }
                pos = target;
            }
            _ => return None,
        }
    }
    Some((labels, end.unwrap_or(pos)))
}

#[derive(Clone, Debug)]
pub struct ParsedRr {
    pub owner: Vec<Vec<u8>>,
    pub rtype: u16,
    pub class: u16,
    pub ttl: u32,
    /// offset of the RDATA within the message
    pub rdata_at: usize,
    pub rdlen: usize,
}

/// own splitter of a raw response into the RRs of its answer section (question skipped);
/// `None` when the octets do not form ANCOUNT well-delimited RRs
pub fn parse_answers(msg: &[u8]) -> Option<Vec<ParsedRr>> {
    if msg.len() < 12 {
        return None;
    }
    let qd = u16::from_be_bytes([msg[4], msg[5]]) as usize;
    let an = u16::from_be_bytes([msg[6], msg[7]]) as usize;
    let mut pos = 12;
    for _ in 0..qd {
        let (_, p) = read_name(msg, pos)?;
        pos = p + 4;
    }
    let mut out = Vec::new();
    for _ in 0..an {
        let (owner, p) = read_name(msg, pos)?;
        let fixed = msg.get(p..p + 10)?;
        let rtype = u16::from_be_bytes([fixed[0], fixed[1]]);
        let class = u16::from_be_bytes([fixed[2], fixed[3]]);
        let ttl = u32::from_be_bytes([fixed[4], fixed[5], fixed[6], fixed[7]]);
        let rdlen = u16::from_be_bytes([fixed[8], fixed[9]]) as usize;
        let rdata_at = p + 10;
        if rdata_at + rdlen > msg.len() {
            return None;
        }
        out.push(ParsedRr {
            owner,
            rtype,
            class,
            ttl,
            rdata_at,
            rdlen,
        });
        pos = rdata_at + rdlen;
    }
    Some(out)
}

/// RFC 4034 §6.2 canonical RDATA computed from received wire RDATA (names expanded and, for the
/// listed types, folded). Only the types C06 serves; `None` = RDATA malformed for its type or
/// type not handled (the caller treats the RRset as unverifiable).
pub fn canonical_from_wire(msg: &[u8], rr: &ParsedRr) -> Option<Vec<u8>> {
    let rd = &msg[rr.rdata_at..rr.rdata_at + rr.rdlen];
    let end = rr.rdata_at + rr.rdlen;
    match rr.rtype {
        T_A => (rd.len() == 4).then(|| rd.to_vec()),
        T_AAAA => (rd.len() == 16).then(|| rd.to_vec()),
        T_TXT => {
            // one or more <character-string>s filling the RDATA exactly
            let mut p = 0;
            if rd.is_empty() {
                return None;
            }
            while p < rd.len() {
                p += 1 + rd[p] as usize;
            }
            (p == rd.len()).then(|| rd.to_vec())
        }
        T_NS | T_CNAME | T_PTR => {
            let (labels, p) = read_name(msg, rr.rdata_at)?;
            if p != end {
                return None;
            }
            let mut o = Vec::new();
            put_name(&mut o, &labels, true);
            Some(o)
        }
        T_MX => {
            if rd.len() < 3 {
                return None;
            }
            let (labels, p) = read_name(msg, rr.rdata_at + 2)?;
            if p != end {
                return None;
            }
            let mut o = rd[..2].to_vec();
            put_name(&mut o, &labels, true);
            Some(o)
        }
        T_DNSKEY => (rd.len() >= 4).then(|| rd.to_vec()),
        _ => None,
    }
}
