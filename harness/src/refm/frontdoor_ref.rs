//! `frontdoor_ref` — the decision table of property C11, straight from its statement, over raw
//! request octets (read with `wire_lite`, never with hickory):
//!
//! * fewer than 12 octets, or QR set → nothing is sent;
//! * otherwise exactly one response, QR set, same ID; for QUERY and UPDATE whose question section
//!   parses, the same question;
//! * RCODE ∈ the *set* of codes whose condition holds — NOTIMP (opcode other than QUERY/UPDATE),
//!   FORMERR (the body does not parse), REFUSED (source denied; or a QUERY whose name no configured
//!   zone encloses), BADVERS (EDNS version > 0) — a set because the statement fixes no precedence;
//!   when no condition holds the answer is the zone's own, served by the zone whose origin is the
//!   longest suffix of the query name.
//!
//! The access rules are the ones documented in crates/server/src/access.rs (module and method
//! comments), re-implemented over plain integers.

use std::collections::BTreeSet;
use std::net::IpAddr;

use super::canon;
use super::wire_lite::{self as wl, Name};

// ---------------------------------------------------------------------------------------------
// access control, as documented

#[derive(Clone, Copy, Debug, PartialEq, Eq)]
pub struct Net {
    pub v6: bool,
    pub addr: u128,
    pub len: u8,
}

impl Net {
    pub fn parse(s: &str) -> Option<Net> {
        let (a, l) = s.split_once('/')?;
        let len: u8 = l.parse().ok()?;
        match a.parse::<IpAddr>().ok()? {
            IpAddr::V4(v4) if len <= 32 => Some(Net {
                v6: false,
                addr: u32::from(v4) as u128,
                len,
            }),
            IpAddr::V6(v6) if len <= 128 => Some(Net {
                v6: true,
                addr: u128::from(v6),
                len,
            }),
            _ => None,
        }
    }

    fn bits(&self) -> u32 {
        if self.v6 {
            128
        } else {
            32
        }
    }

    pub fn contains(&self, v6: bool, addr: u128) -> bool {
        if self.v6 != v6 {
            return false;
        }
        if self.len == 0 {
            return true;
        }
        let shift = self.bits() - self.len as u32;
        (self.addr >> shift) == (addr >> shift)
    }
}

/// "A dual-stack listener delivers a v4 client as ::ffff:a.b.c.d. That source must still hit the v4
/// … prefix the operator configured."
pub fn canonical(ip: IpAddr) -> (bool, u128) {
    match ip {
        IpAddr::V4(v4) => (false, u32::from(v4) as u128),
        IpAddr::V6(v6) => match v6.to_ipv4_mapped() {
            Some(v4) => (false, u32::from(v4) as u128),
            None => (true, u128::from(v6)),
        },
    }
}

fn lpm(nets: &[Net], v6: bool, addr: u128) -> Option<u8> {
    nets.iter().filter(|n| n.contains(v6, addr)).map(|n| n.len).max()
}

#[derive(Clone, Copy, Debug, PartialEq, Eq)]
pub enum Access {
    Allowed,
    Denied,
    /// the documentation does not say whether "no entries" is judged per address family
    Ambiguous,
}

/// * "If there are no allows or denies specified, we will always default to allow."
/// * "Allows without denies always translate to deny all except those in the allow list."
/// * "Denies without allows only deny those in the specified deny list."
/// * "If there are both allow and deny lists, then the deny list takes precedent with the allow list
///   overriding the deny if it is more specific." / "if denied networks are specified, then allowed
///   networks will only apply if the deny rule matched, but otherwise the address will be allowed."
pub fn access(deny: &[Net], allow: &[Net], ip: IpAddr) -> Access {
    let (v6, addr) = canonical(ip);
    let decide = |any_deny: bool, any_allow: bool| -> bool {
        match (lpm(deny, v6, addr), lpm(allow, v6, addr)) {
            (Some(d), Some(a)) => a > d,
            (Some(_), None) => false,
            (None, Some(_)) => true,
            (None, None) => {
                if any_deny {
                    true
                } else {
                    !any_allow
                }
            }
        }
    };
    // reading 1: the lists of the address's own family; reading 2: the lists as configured
    let fam = decide(deny.iter().any(|n| n.v6 == v6), allow.iter().any(|n| n.v6 == v6));
    let all = decide(!deny.is_empty(), !allow.is_empty());
    match (fam, all) {
        (true, true) => Access::Allowed,
        (false, false) => Access::Denied,
        _ => Access::Ambiguous,
    }
}

// ---------------------------------------------------------------------------------------------
// catalog

/// the configured origin that is the longest suffix of `qname` (case-insensitive)
pub fn longest_suffix<'a>(origins: &'a [Name], qname: &[Vec<u8>]) -> Option<&'a Name> {
    origins.iter().filter(|o| canon::is_suffix(o, qname)).max_by_key(|o| o.len())
}

// ---------------------------------------------------------------------------------------------
// the decision table

#[derive(Clone, Copy, Debug, PartialEq, Eq)]
pub enum BodyState {
    /// built by a constructor whose output every DNS implementation must accept, unmodified
    WellFormed,
    /// the framing is broken beyond doubt (truncated, counts past the end, reserved label type,
    /// forward pointer, name over 255 octets, QDCOUNT ≠ 1, more than one OPT)
    Malformed,
    /// framing fine, but the harness does not vet RDATA: the server may or may not accept it
    Unknown,
}

#[derive(Clone, Debug)]
pub struct Expected {
    /// 0 or 1
    pub responses: usize,
    pub id: u16,
    /// the octets of the request's question section that must come back (QUERY / UPDATE only)
    pub question: Option<(usize, usize)>,
    /// None: not constrained (the zone's own answer to something this check does not model)
    pub rcodes: Option<BTreeSet<u16>>,
    /// a normal TXT answer must carry exactly this marker
    pub marker: Option<String>,
    pub body: BodyState,
    pub gates: Vec<&'static str>,
    pub qname: Option<Name>,
    pub zone: Option<Name>,
    /// the request's question name is written with a compression pointer
    pub question_pointer: bool,
    /// an ordinary QUERY (class IN, not a zone transfer) from a permitted source for a name that a
    /// configured zone encloses: whatever that zone answers, it is not REFUSED ("REFUSED if no
    /// configured zone encloses the name or the source address is denied")
    pub not_refused: bool,
}

pub const OP_QUERY: u8 = 0;
pub const OP_UPDATE: u8 = 5;

/// `marker_names`: predicate telling whether a TXT/IN query for this name, served by `zone`, has an
/// answer this check can predict (the marker record), supplied by the catalog generator.
pub fn expect(
    req: &[u8],
    pristine: bool,
    src_access: Access,
    origins: &[Name],
    predictable: &dyn Fn(&[Vec<u8>], &[Vec<u8>]) -> bool,
) -> Expected {
    let mut e = Expected {
        responses: 0,
        id: 0,
        question: None,
        rcodes: None,
        marker: None,
        body: BodyState::Unknown,
        gates: vec![],
        qname: None,
        zone: None,
        question_pointer: false,
        not_refused: false,
    };
    let Ok(h) = wl::parse_header(req) else {
        e.gates.push("short");
        return e; // "messages … shorter than a header get nothing at all"
    };
    e.id = h.id;
    if h.qr {
        e.gates.push("qr");
        return e; // "messages that are themselves responses … get nothing at all"
    }
    e.responses = 1;

    let parsed = wl::parse(req);
    let questions = wl::parse_questions(req, &h).ok();
    e.body = match &parsed {
        Err(_) => BodyState::Malformed,
        Ok(m) if m.header.qd != 1 || m.opt_count > 1 => BodyState::Malformed,
        // RFC 6891 6.1.1 / RFC 8945 5.1: OPT and TSIG are additional-section pseudo-records; one that
        // sits in the answer or authority section makes the message malformed
        Ok(m) if m.answers.iter().chain(&m.authorities).any(|r| r.rtype == wl::T_OPT || r.rtype == 250) => BodyState::Malformed,
        // RFC 1035 3.4.1 / RFC 3596 2.2: the RDATA of a class-IN A record is 4 octets, of an AAAA record
        // 16; any other RDLENGTH cannot be read as that record. (UPDATE messages are exempt: RFC 2136
        // 2.4/2.5 uses empty RDATA for its delete and prerequisite forms.)
        Ok(m) if h.opcode != OP_UPDATE
            && m.answers
                .iter()
                .chain(&m.authorities)
                .chain(&m.additionals)
                .any(|r| r.class == 1 && ((r.rtype == wl::T_A && r.rdlen != 4) || (r.rtype == wl::T_AAAA && r.rdlen != 16))) =>
        {
            BodyState::Malformed
        }
        Ok(_) if pristine => BodyState::WellFormed,
        Ok(_) => BodyState::Unknown,
    };
    let question = questions.as_ref().and_then(|(q, _)| if q.len() == 1 { q.first() } else { None });
    let supported = h.opcode == OP_QUERY || h.opcode == OP_UPDATE;
    if supported {
        if let Some(q) = question {
            // a question name written with compression pointers (into the header, into itself) has no
            // agreed reading; such a question is not required to come back
            if !q.used_pointer {
                e.question = Some((q.start, q.end));
            }
        }
    }
    e.qname = question.map(|q| canon::lower(&q.name));
    e.question_pointer = questions.as_ref().is_some_and(|(q, _)| q.iter().any(|q| q.used_pointer));

    let mut codes: BTreeSet<u16> = BTreeSet::new();
    if !supported {
        codes.insert(wl::RC_NOTIMP);
        e.gates.push("opcode");
    }
    if e.body != BodyState::WellFormed {
        codes.insert(wl::RC_FORMERR);
        e.gates.push(if e.body == BodyState::Malformed { "malformed" } else { "maybe-malformed" });
    }
    match src_access {
        Access::Denied => {
            codes.insert(wl::RC_REFUSED);
            e.gates.push("denied");
        }
        Access::Ambiguous => {
            codes.insert(wl::RC_REFUSED);
            e.gates.push("maybe-denied");
        }
        Access::Allowed => {}
    }
    let badvers = parsed.as_ref().ok().and_then(|m| m.edns.as_ref()).is_some_and(|o| o.version > 0);
    if badvers {
        codes.insert(wl::RC_BADVERS);
        e.gates.push("edns-version");
    }
    let mut no_zone = false;
    if h.opcode == OP_QUERY {
        if let Some(q) = question {
            match longest_suffix(origins, &q.name) {
                Some(z) => e.zone = Some(z.clone()),
                None => {
                    no_zone = true;
                    codes.insert(wl::RC_REFUSED);
                    e.gates.push("no-zone");
                }
            }
        }
    }
    // "otherwise the zone's own answer": possible unless a gate certainly applies
    let normal_possible = supported && e.body != BodyState::Malformed && src_access != Access::Denied && !badvers && !no_zone;
    if !normal_possible {
        e.rcodes = Some(codes);
        return e;
    }
    e.not_refused = h.opcode == OP_QUERY
        && src_access == Access::Allowed
        && e.zone.is_some()
        && question.is_some_and(|q| q.qclass == 1 && !matches!(q.qtype, 251 | 252));
    // the zone's own answer: predictable only for the marker queries
    let predictable_q = h.opcode == OP_QUERY
        && question.is_some_and(|q| {
            q.qtype == wl::T_TXT && q.qclass == 1 && e.zone.as_ref().is_some_and(|z| predictable(&canon::lower(&q.name), z))
        });
    if predictable_q {
        codes.insert(wl::RC_NOERROR);
        e.rcodes = Some(codes);
        e.marker = e.zone.as_ref().map(|z| format!("zone={}", canon::show(z)));
    } else {
        e.rcodes = None;
    }
    e
}
