//! `zonefile_printer` — an independent RFC 1035 §5 master-file printer with per-line layout
//! choices. It shares no code with hickory: it works on its own record model (`ZRec`) and emits
//! text from the RFC grammar:
//!
//! * RFC 1035 §5.1: entries `<blank>[<comment>]`, `$ORIGIN <domain-name> [<comment>]`,
//!   `<domain-name><rr> [<comment>]`, `<blank><rr> [<comment>]`; `<rr>` =
//!   `[<TTL>] [<class>] <type> <RDATA>` or `[<class>] [<TTL>] <type> <RDATA>`; "Omitted class and
//!   TTL values are default to the last explicitly stated values"; "If an entry for an RR begins
//!   with a blank, then the RR is assumed to be owned by the last stated owner"; relative names are
//!   completed with the current origin; `@` denotes the current origin; `\X` quotes a character
//!   (`\.` puts a dot into a label); `( )` group data across line boundaries; `;` starts a comment;
//!   "Any combination of tabs and spaces act as a delimiter"; a `<character-string>` is either a
//!   contiguous token or `"`-delimited with `\"` for an inner quote.
//! * RFC 2308 §4: `$TTL <ttl>` sets the TTL of every following RR that has no explicit TTL.
//! * RDATA presentation formats: RFC 1035 §3.3/§3.4 (A, NS, CNAME, PTR, MX, SOA, TXT, HINFO),
//!   RFC 3596 §2.4 + RFC 5952 (AAAA), RFC 2782 (SRV), RFC 8659 §4.1.1 (CAA), RFC 3403 §4.1 (NAPTR),
//!   RFC 6698 §2.2 (TLSA; whitespace allowed inside the hex data), RFC 8162 §2 (SMIMEA = TLSA),
//!   RFC 4255 §3.2 (SSHFP), RFC 4034 §5.3 (DS; whitespace allowed inside the digest),
//!   RFC 4398 §2.2 (CERT; the base64 "may be divided into any number of white-space-separated
//!   substrings"), RFC 7929 §2.3 (OPENPGPKEY, base64), RFC 7477 §2.1.2 (CSYNC), RFC 9460 §2.1
//!   (SVCB/HTTPS), draft-ietf-dnsop-aname (ANAME = one domain name).
//!
//! The printer never emits anything outside what those texts allow; which of the allowed freedoms a
//! file uses is chosen by the `Layout` values of the case, and reported back as `Feature`s.

use std::collections::BTreeSet;

use serde::{Deserialize, Serialize};

/// absolute domain name as a list of labels (root = empty list). Labels are ASCII; a label may
/// contain '.' (printed as `\.`).
pub type Labels = Vec<String>;

/// binary blob, serialised as a hex string in replay files
#[derive(Clone, PartialEq, Eq, Hash, PartialOrd, Ord, Serialize, Deserialize)]
pub struct Blob(#[serde(with = "crate::core::hexser")] pub Vec<u8>);

impl std::fmt::Debug for Blob {
    fn fmt(&self, f: &mut std::fmt::Formatter<'_>) -> std::fmt::Result {
        write!(f, "x{}", crate::core::hexser::to_hex(&self.0))
    }
}

#[derive(Clone, Debug, PartialEq, Eq, Hash, PartialOrd, Ord, Serialize, Deserialize)]
pub enum SvcParam {
    /// key 1
    Alpn(Vec<String>),
    /// key 2
    NoDefaultAlpn,
    /// key 3
    Port(u16),
    /// key 4
    V4Hint(Vec<[u8; 4]>),
    /// key 6
    V6Hint(Vec<[u16; 8]>),
}

#[derive(Clone, Debug, PartialEq, Eq, Hash, PartialOrd, Ord, Serialize, Deserialize)]
pub enum ZData {
    A([u8; 4]),
    Aaaa([u16; 8]),
    Ns(Labels),
    Cname(Labels),
    Ptr(Labels),
    Aname(Labels),
    Mx { pref: u16, exch: Labels },
    Soa { mname: Labels, rname: Labels, serial: u32, refresh: u32, retry: u32, expire: u32, minimum: u32 },
    /// character-strings are printable ASCII (0x20..=0x7e) in the exact-load domain
    Txt(Vec<String>),
    Hinfo { cpu: String, os: String },
    Srv { prio: u16, weight: u16, port: u16, target: Labels },
    Caa { flags: u8, tag: String, value: String },
    Naptr { order: u16, pref: u16, flags: String, services: String, regexp: String, replacement: Labels },
    Tlsa { usage: u8, selector: u8, matching: u8, data: Blob },
    Smimea { usage: u8, selector: u8, matching: u8, data: Blob },
    Sshfp { alg: u8, fptype: u8, fp: Blob },
    Ds { tag: u16, alg: u8, dtype: u8, digest: Blob },
    Cert { ctype: u16, tag: u16, alg: u8, data: Blob },
    Openpgpkey(Blob),
    /// types = RR type codes, ascending
    Csync { serial: u32, flags: u16, types: Vec<u16> },
    /// params in ascending key order (RFC 9460 §2.2 wire order)
    Svcb { https: bool, prio: u16, target: Labels, params: Vec<SvcParam> },
}

impl ZData {
    pub fn type_mnemonic(&self) -> &'static str {
        match self {
            ZData::A(_) => "A",
            ZData::Aaaa(_) => "AAAA",
            ZData::Ns(_) => "NS",
            ZData::Cname(_) => "CNAME",
            ZData::Ptr(_) => "PTR",
            ZData::Aname(_) => "ANAME",
            ZData::Mx { .. } => "MX",
            ZData::Soa { .. } => "SOA",
            ZData::Txt(_) => "TXT",
            ZData::Hinfo { .. } => "HINFO",
            ZData::Srv { .. } => "SRV",
            ZData::Caa { .. } => "CAA",
            ZData::Naptr { .. } => "NAPTR",
            ZData::Tlsa { .. } => "TLSA",
            ZData::Smimea { .. } => "SMIMEA",
            ZData::Sshfp { .. } => "SSHFP",
            ZData::Ds { .. } => "DS",
            ZData::Cert { .. } => "CERT",
            ZData::Openpgpkey(_) => "OPENPGPKEY",
            ZData::Csync { .. } => "CSYNC",
            ZData::Svcb { https: false, .. } => "SVCB",
            ZData::Svcb { https: true, .. } => "HTTPS",
        }
    }

    /// same data with every embedded domain name lower-cased (DNS name equality, RFC 1035 §2.3.3)
    pub fn normalised(&self) -> ZData {
        let lc = |l: &Labels| -> Labels { l.iter().map(|s| s.to_ascii_lowercase()).collect() };
        match self {
            ZData::Ns(n) => ZData::Ns(lc(n)),
            ZData::Cname(n) => ZData::Cname(lc(n)),
            ZData::Ptr(n) => ZData::Ptr(lc(n)),
            ZData::Aname(n) => ZData::Aname(lc(n)),
            ZData::Mx { pref, exch } => ZData::Mx { pref: *pref, exch: lc(exch) },
            ZData::Soa { mname, rname, serial, refresh, retry, expire, minimum } => ZData::Soa {
                mname: lc(mname),
                rname: lc(rname),
                serial: *serial,
                refresh: *refresh,
                retry: *retry,
                expire: *expire,
                minimum: *minimum,
            },
            ZData::Srv { prio, weight, port, target } => ZData::Srv { prio: *prio, weight: *weight, port: *port, target: lc(target) },
            ZData::Naptr { order, pref, flags, services, regexp, replacement } => ZData::Naptr {
                order: *order,
                pref: *pref,
                flags: flags.clone(),
                services: services.clone(),
                regexp: regexp.clone(),
                replacement: lc(replacement),
            },
            ZData::Svcb { https, prio, target, params } => ZData::Svcb { https: *https, prio: *prio, target: lc(target), params: params.clone() },
            other => other.clone(),
        }
    }
}

#[derive(Clone, Debug, PartialEq, Eq, Hash, Serialize, Deserialize)]
pub struct ZRec {
    pub owner: Labels,
    pub ttl: u32,
    pub data: ZData,
}

/// flattened, normalised record: (owner lower-cased, class, type mnemonic, TTL, RDATA)
#[derive(Clone, Debug, PartialEq, Eq, PartialOrd, Ord)]
pub struct Flat {
    pub owner: Labels,
    pub class: String,
    pub rtype: String,
    pub ttl: u32,
    pub data: ZData,
}

impl ZRec {
    pub fn flat(&self) -> Flat {
        Flat {
            owner: self.owner.iter().map(|s| s.to_ascii_lowercase()).collect(),
            class: "IN".into(),
            rtype: self.data.type_mnemonic().into(),
            ttl: self.ttl,
            data: self.data.normalised(),
        }
    }
}

// ---------------------------------------------------------------------------------------------
// layout

#[derive(Clone, Copy, Debug, PartialEq, Eq, Serialize, Deserialize)]
pub enum OwnerStyle {
    Abs,
    Rel,
    At,
    Inherit,
}

#[derive(Clone, Debug, PartialEq, Eq, Serialize, Deserialize)]
pub enum Paren {
    None,
    /// "(" before RDATA field `open`, ")" after RDATA field `close` (indices clamped to the
    /// field list); bit k of `breaks` = line break (instead of blanks) after field k inside the
    /// group; `comment` is put after the first line break inside the group
    Wrap { open: u8, close: u8, breaks: u16, comment: Option<String> },
}

/// unusually long (but legal) lexical runs: RFC 1035 puts no limit on comment length, on the
/// amount of white space between items, or on the size of a parenthesised group
#[derive(Clone, Copy, Debug, PartialEq, Eq, Serialize, Deserialize)]
pub enum LongRun {
    None,
    Comment(u16),
    Blanks(u16),
}

#[derive(Clone, Debug, PartialEq, Eq, Serialize, Deserialize)]
pub struct RrLayout {
    pub owner: OwnerStyle,
    pub ttl_explicit: bool,
    pub class_explicit: bool,
    pub class_first: bool,
    /// small per-field choices are drawn from these bits in a fixed order: separators, name
    /// styles, string quoting, hex case and splitting
    pub bits: u64,
    pub paren: Paren,
    pub comment: Option<String>,
    pub long: LongRun,
}

#[derive(Clone, Debug, PartialEq, Eq, Serialize, Deserialize)]
pub enum Item {
    Rr { rec: ZRec, lay: RrLayout },
    Origin { name: Labels, comment: Option<String> },
    Ttl { ttl: u32, comment: Option<String> },
    /// blank line: optional leading blanks, optional comment
    Blank { indent: u8, comment: Option<String> },
}

#[derive(Clone, Debug, PartialEq, Eq, Serialize, Deserialize)]
pub struct ZoneFile {
    /// origin handed to the loader
    pub origin: Labels,
    pub items: Vec<Item>,
    pub crlf: bool,
    pub final_newline: bool,
}

#[derive(Clone, Copy, Debug, PartialEq, Eq, PartialOrd, Ord, Hash)]
pub enum Feature {
    OwnerInherited,
    OwnerRelative,
    OwnerAt,
    TtlFromDollarTtl,
    TtlFromPrevious,
    ClassOmitted,
    ClassBeforeTtl,
    OriginSwitch,
    Comment,
    BlankLine,
    Continuation,
    CommentInsideParens,
    QuotedString,
    UnquotedString,
    QuotedStringInsideParens,
    EscapedDotInName,
    EscapedQuoteOrBackslash,
    RelativeRdataName,
    AtInRdata,
    Tabs,
    Crlf,
    NoFinalNewline,
    HexSplit,
    Base64Split,
    LongComment,
    LongBlankRun,
    SvcbRelativeTarget,
    /// a comment that follows the last field without a blank: `192.0.2.1;x` (RFC 1035 §5.1: the
    /// semicolon starts the comment wherever it stands outside a quoted string)
    GluedComment,
}

impl Feature {
    pub fn label(self) -> &'static str {
        match self {
            Feature::OwnerInherited => "owner-inherited",
            Feature::OwnerRelative => "owner-relative",
            Feature::OwnerAt => "owner-@",
            Feature::TtlFromDollarTtl => "ttl-from-$TTL",
            Feature::TtlFromPrevious => "ttl-from-previous-rr",
            Feature::ClassOmitted => "class-omitted",
            Feature::ClassBeforeTtl => "class-before-ttl",
            Feature::OriginSwitch => "$ORIGIN-switch",
            Feature::Comment => "comment",
            Feature::BlankLine => "blank-line",
            Feature::Continuation => "parenthesised-continuation",
            Feature::CommentInsideParens => "comment-inside-parens",
            Feature::QuotedString => "quoted-string",
            Feature::UnquotedString => "unquoted-string",
            Feature::QuotedStringInsideParens => "quoted-string-inside-parens",
            Feature::EscapedDotInName => "escaped-dot-in-name",
            Feature::EscapedQuoteOrBackslash => "escaped-quote-or-backslash",
            Feature::RelativeRdataName => "relative-rdata-name",
            Feature::AtInRdata => "@-in-rdata",
            Feature::Tabs => "tabs",
            Feature::Crlf => "crlf",
            Feature::NoFinalNewline => "no-final-newline",
            Feature::HexSplit => "hex-split-into-tokens",
            Feature::Base64Split => "base64-split-into-tokens",
            Feature::LongComment => "comment>=4KB",
            Feature::LongBlankRun => "blank-run>=4KB",
            Feature::SvcbRelativeTarget => "svcb-relative-target",
            Feature::GluedComment => "comment-glued-to-last-field",
        }
    }
}

pub type Features = BTreeSet<Feature>;

struct Bits {
    v: u64,
    pos: u32,
}

impl Bits {
    fn take(&mut self, n: u32) -> u64 {
        let r = self.v.rotate_right(self.pos) & ((1u64 << n) - 1);
        self.pos = (self.pos + n) % 64;
        // decorrelate successive wraps
        if self.pos < n {
            self.v = self.v.wrapping_mul(0x9e37_79b9_7f4a_7c15).rotate_left(17) ^ 0x5851_f42d_4c95_7f2d;
        }
        r
    }
    fn flag(&mut self) -> bool {
        self.take(1) == 1
    }
}

enum Field {
    /// already final text (numbers, mnemonics, addresses, hex / base64 chunks)
    Plain(String),
    Name(Labels),
    /// like Name, but hickory-independent rule: RFC 9460 §2.1 TargetName is an ordinary
    /// <domain-name> (relative names are completed with the origin like anywhere else)
    SvcbTarget(Labels),
    Str(String),
    /// SVCB parameter, never quoted
    Param(String),
}

fn name_eq(a: &Labels, b: &Labels) -> bool {
    a.len() == b.len() && a.iter().zip(b).all(|(x, y)| x.eq_ignore_ascii_case(y))
}

/// labels of `name` left of `origin` if `name` is a proper subdomain of it
fn relative_to<'a>(name: &'a Labels, origin: &Labels) -> Option<&'a [String]> {
    if name.len() <= origin.len() {
        return None;
    }
    let cut = name.len() - origin.len();
    if name[cut..].iter().zip(origin).all(|(x, y)| x.eq_ignore_ascii_case(y)) {
        Some(&name[..cut])
    } else {
        None
    }
}

fn print_label(l: &str, feats: &mut Features) -> String {
    // RFC 1035 §5.1: "\." places a dot character in a label
    if l.contains('.') {
        feats.insert(Feature::EscapedDotInName);
    }
    l.replace('.', "\\.")
}

fn print_labels(ls: &[String], feats: &mut Features) -> String {
    ls.iter().map(|l| print_label(l, feats)).collect::<Vec<_>>().join(".")
}

fn print_abs(name: &Labels, feats: &mut Features) -> String {
    if name.is_empty() {
        ".".to_string()
    } else {
        format!("{}.", print_labels(name, feats))
    }
}

/// may this character-string be written without quotes? (contiguous, no character that has a
/// special meaning anywhere in RFC 1035 §5.1)
pub fn unquotable(s: &str) -> bool {
    !s.is_empty() && s.bytes().all(|b| (0x21..=0x7e).contains(&b) && !b"\"\\;()@$".contains(&b))
}

fn print_quoted(s: &str, feats: &mut Features) -> String {
    let mut out = String::with_capacity(s.len() + 2);
    out.push('"');
    for ch in s.chars() {
        if ch == '"' || ch == '\\' {
            feats.insert(Feature::EscapedQuoteOrBackslash);
            out.push('\\');
        }
        out.push(ch);
    }
    out.push('"');
    out
}

pub fn fmt_v4(a: &[u8; 4]) -> String {
    format!("{}.{}.{}.{}", a[0], a[1], a[2], a[3])
}

/// RFC 5952 §4 style (longest run of >= 2 zero groups compressed) or the full form
pub fn fmt_v6(g: &[u16; 8], compress: bool, upper: bool) -> String {
    let hex = |x: u16| if upper { format!("{x:X}") } else { format!("{x:x}") };
    if compress {
        let (mut best, mut best_len) = (0usize, 0usize);
        let mut i = 0;
        while i < 8 {
            if g[i] == 0 {
                let mut j = i;
                while j < 8 && g[j] == 0 {
                    j += 1;
                }
                if j - i > best_len {
                    best = i;
                    best_len = j - i;
                }
                i = j;
            } else {
                i += 1;
            }
        }
        if best_len >= 2 {
            let left: Vec<String> = g[..best].iter().map(|x| hex(*x)).collect();
            let right: Vec<String> = g[best + best_len..].iter().map(|x| hex(*x)).collect();
            return format!("{}::{}", left.join(":"), right.join(":"));
        }
    }
    g.iter().map(|x| hex(*x)).collect::<Vec<_>>().join(":")
}

fn hex_of(b: &[u8], upper: bool) -> String {
    let s = crate::core::hexser::to_hex(b);
    if upper {
        s.to_ascii_uppercase()
    } else {
        s
    }
}

/// RFC 4648 §4 base64 with padding
pub fn base64(data: &[u8]) -> String {
    const T: &[u8; 64] = b"ABCDEFGHIJKLMNOPQRSTUVWXYZabcdefghijklmnopqrstuvwxyz0123456789+/";
    let mut out = String::new();
    for c in data.chunks(3) {
        let n = (c[0] as u32) << 16 | (*c.get(1).unwrap_or(&0) as u32) << 8 | *c.get(2).unwrap_or(&0) as u32;
        out.push(T[(n >> 18) as usize & 63] as char);
        out.push(T[(n >> 12) as usize & 63] as char);
        out.push(if c.len() > 1 { T[(n >> 6) as usize & 63] as char } else { '=' });
        out.push(if c.len() > 2 { T[n as usize & 63] as char } else { '=' });
    }
    out
}

fn split_chunks(s: &str, bits: &mut Bits, max_parts: usize) -> Vec<String> {
    // split at up to max_parts-1 positions (never producing an empty part)
    let mut parts = Vec::new();
    let mut rest = s;
    while parts.len() + 1 < max_parts && rest.len() >= 2 {
        let at = 1 + (bits.take(6) as usize) % (rest.len() - 1);
        let (a, b) = rest.split_at(at);
        parts.push(a.to_string());
        rest = b;
        if !bits.flag() {
            break;
        }
    }
    parts.push(rest.to_string());
    parts
}

/// RR type mnemonics for CSYNC bitmaps (IANA registry)
pub fn type_mnemonic_of(code: u16) -> Option<&'static str> {
    Some(match code {
        1 => "A",
        2 => "NS",
        5 => "CNAME",
        6 => "SOA",
        12 => "PTR",
        15 => "MX",
        16 => "TXT",
        28 => "AAAA",
        33 => "SRV",
        35 => "NAPTR",
        43 => "DS",
        44 => "SSHFP",
        52 => "TLSA",
        257 => "CAA",
        _ => return None,
    })
}

fn rdata_fields(d: &ZData, bits: &mut Bits, suppress: &Features, feats: &mut Features) -> Vec<Field> {
    use Field::*;
    let num = |n: u64| Plain(n.to_string());
    match d {
        ZData::A(a) => vec![Plain(fmt_v4(a))],
        ZData::Aaaa(g) => {
            let (c, u) = (bits.flag(), bits.flag());
            vec![Plain(fmt_v6(g, c, u))]
        }
        ZData::Ns(n) | ZData::Cname(n) | ZData::Ptr(n) | ZData::Aname(n) => vec![Name(n.clone())],
        ZData::Mx { pref, exch } => vec![num(*pref as u64), Name(exch.clone())],
        ZData::Soa { mname, rname, serial, refresh, retry, expire, minimum } => vec![
            Name(mname.clone()),
            Name(rname.clone()),
            num(*serial as u64),
            num(*refresh as u64),
            num(*retry as u64),
            num(*expire as u64),
            num(*minimum as u64),
        ],
        ZData::Txt(v) => v.iter().map(|s| Str(s.clone())).collect(),
        ZData::Hinfo { cpu, os } => vec![Str(cpu.clone()), Str(os.clone())],
        ZData::Srv { prio, weight, port, target } => vec![num(*prio as u64), num(*weight as u64), num(*port as u64), Name(target.clone())],
        ZData::Caa { flags, tag, value } => vec![num(*flags as u64), Plain(tag.clone()), Str(value.clone())],
        ZData::Naptr { order, pref, flags, services, regexp, replacement } => vec![
            num(*order as u64),
            num(*pref as u64),
            Str(flags.clone()),
            Str(services.clone()),
            Str(regexp.clone()),
            Name(replacement.clone()),
        ],
        ZData::Tlsa { usage, selector, matching, data } | ZData::Smimea { usage, selector, matching, data } => {
            let mut f = vec![num(*usage as u64), num(*selector as u64), num(*matching as u64)];
            let hex = hex_of(&data.0, bits.flag());
            // RFC 6698 §2.2: "Whitespace is allowed within the string of hexadecimal characters"
            let parts = if bits.take(2) == 0 { split_chunks(&hex, bits, 4) } else { vec![hex] };
            if parts.len() > 1 {
                feats.insert(Feature::HexSplit);
            }
            f.extend(parts.into_iter().map(Plain));
            f
        }
        ZData::Sshfp { alg, fptype, fp } => vec![num(*alg as u64), num(*fptype as u64), Plain(hex_of(&fp.0, bits.flag()))],
        ZData::Ds { tag, alg, dtype, digest } => {
            let mut f = vec![num(*tag as u64), num(*alg as u64), num(*dtype as u64)];
            let hex = hex_of(&digest.0, bits.flag());
            // RFC 4034 §5.3: "Whitespace is allowed within the hexadecimal text"
            let parts = if bits.take(2) == 0 { split_chunks(&hex, bits, 4) } else { vec![hex] };
            if parts.len() > 1 {
                feats.insert(Feature::HexSplit);
            }
            f.extend(parts.into_iter().map(Plain));
            f
        }
        ZData::Cert { ctype, tag, alg, data } => {
            let mut f = vec![num(*ctype as u64), num(*tag as u64), num(*alg as u64)];
            let b64 = base64(&data.0);
            // RFC 4398 §2.2: "may be divided into any number of white-space-separated substrings"
            let split = bits.take(2) == 0 && !suppress.contains(&Feature::Base64Split);
            let parts = if split { split_chunks(&b64, bits, 4) } else { vec![b64] };
            if parts.len() > 1 {
                feats.insert(Feature::Base64Split);
            }
            f.extend(parts.into_iter().map(Plain));
            f
        }
        ZData::Openpgpkey(k) => vec![Plain(base64(&k.0))],
        ZData::Csync { serial, flags, types } => {
            let mut f = vec![num(*serial as u64), num(*flags as u64)];
            f.extend(types.iter().map(|t| Plain(type_mnemonic_of(*t).expect("generator uses known types").to_string())));
            f
        }
        ZData::Svcb { prio, target, params, .. } => {
            let mut f = vec![num(*prio as u64), SvcbTarget(target.clone())];
            for p in params {
                f.push(Param(match p {
                    SvcParam::Alpn(ids) => format!("alpn={}", ids.join(",")),
                    SvcParam::NoDefaultAlpn => "no-default-alpn".to_string(),
                    SvcParam::Port(p) => format!("port={p}"),
                    SvcParam::V4Hint(v) => format!("ipv4hint={}", v.iter().map(fmt_v4).collect::<Vec<_>>().join(",")),
                    SvcParam::V6Hint(v) => format!("ipv6hint={}", v.iter().map(|g| fmt_v6(g, true, false)).collect::<Vec<_>>().join(",")),
                }));
            }
            f
        }
    }
}

const BLANKS: [&str; 8] = [" ", " ", "\t", "  ", " \t", "\t\t", "    ", "\t "];

fn sep(bits: &mut Bits, feats: &mut Features) -> &'static str {
    let s = BLANKS[bits.take(3) as usize];
    if s.contains('\t') {
        feats.insert(Feature::Tabs);
    }
    s
}

fn comment_text(c: &str) -> String {
    format!("; {c}")
}

/// Render the zone file. `suppress` lists layout features the printer must not use (the check
/// re-renders a failing case without a suspected feature to attribute the failure to one cause).
pub fn print(z: &ZoneFile, suppress: &Features) -> (String, Features) {
    let mut feats = Features::new();
    let nl = if z.crlf { "\r\n" } else { "\n" };
    if z.crlf {
        feats.insert(Feature::Crlf);
    }
    let mut out = String::new();
    let mut origin: Labels = z.origin.clone();
    let mut last_owner: Option<Labels> = None;
    let mut ttl_default: Option<u32> = None;
    let mut ttl_last: Option<u32> = None;
    let mut class_stated = false;

    for item in &z.items {
        match item {
            Item::Blank { indent, comment } => {
                feats.insert(Feature::BlankLine);
                for _ in 0..*indent {
                    out.push(' ');
                }
                if let Some(c) = comment {
                    feats.insert(Feature::Comment);
                    out.push_str(&comment_text(c));
                }
                out.push_str(nl);
            }
            Item::Origin { name, comment } => {
                if !name_eq(name, &origin) {
                    feats.insert(Feature::OriginSwitch);
                }
                out.push_str("$ORIGIN ");
                out.push_str(&print_abs(name, &mut feats));
                if let Some(c) = comment {
                    feats.insert(Feature::Comment);
                    if c.len() % 3 == 0 && !suppress.contains(&Feature::GluedComment) {
                        feats.insert(Feature::GluedComment);
                        out.push(';');
                        out.push_str(c);
                    } else {
                        out.push(' ');
                        out.push_str(&comment_text(c));
                    }
                }
                out.push_str(nl);
                origin = name.clone();
            }
            Item::Ttl { ttl, comment } => {
                out.push_str(&format!("$TTL {ttl}"));
                if let Some(c) = comment {
                    feats.insert(Feature::Comment);
                    if c.len() % 3 == 0 && !suppress.contains(&Feature::GluedComment) {
                        feats.insert(Feature::GluedComment);
                        out.push(';');
                        out.push_str(c);
                    } else {
                        out.push(' ');
                        out.push_str(&comment_text(c));
                    }
                }
                out.push_str(nl);
                ttl_default = Some(*ttl);
            }
            Item::Rr { rec, lay } => {
                let mut bits = Bits { v: lay.bits, pos: 0 };
                // ---- owner -----------------------------------------------------------------
                let mut style = lay.owner;
                if style == OwnerStyle::Inherit && !last_owner.as_ref().is_some_and(|o| name_eq(o, &rec.owner)) {
                    style = OwnerStyle::Rel;
                }
                if style == OwnerStyle::At && !name_eq(&rec.owner, &origin) {
                    style = OwnerStyle::Rel;
                }
                if style == OwnerStyle::Rel && (origin.is_empty() || relative_to(&rec.owner, &origin).is_none()) {
                    style = OwnerStyle::Abs;
                }
                match style {
                    OwnerStyle::Inherit => {
                        feats.insert(Feature::OwnerInherited);
                        // the blank that starts the line is the separator in front of the next item
                    }
                    OwnerStyle::At => {
                        feats.insert(Feature::OwnerAt);
                        out.push('@');
                    }
                    OwnerStyle::Rel => {
                        feats.insert(Feature::OwnerRelative);
                        let rel = relative_to(&rec.owner, &origin).expect("checked");
                        out.push_str(&print_labels(rel, &mut feats));
                    }
                    OwnerStyle::Abs => out.push_str(&print_abs(&rec.owner, &mut feats)),
                }
                last_owner = Some(rec.owner.clone());

                // ---- [TTL] [class] ---------------------------------------------------------
                let may_omit_ttl = match ttl_default {
                    // RFC 2308 §4
                    Some(d) => d == rec.ttl,
                    // RFC 1035 §5.1 "last explicitly stated"
                    None => ttl_last == Some(rec.ttl),
                };
                let ttl_txt = if lay.ttl_explicit || !may_omit_ttl {
                    ttl_last = Some(rec.ttl);
                    Some(rec.ttl.to_string())
                } else {
                    feats.insert(if ttl_default.is_some() { Feature::TtlFromDollarTtl } else { Feature::TtlFromPrevious });
                    None
                };
                let class_txt = if lay.class_explicit || !class_stated {
                    class_stated = true;
                    Some("IN".to_string())
                } else {
                    feats.insert(Feature::ClassOmitted);
                    None
                };
                let mut head: Vec<String> = Vec::new();
                if lay.class_first && ttl_txt.is_some() && class_txt.is_some() {
                    feats.insert(Feature::ClassBeforeTtl);
                    head.extend(class_txt);
                    head.extend(ttl_txt);
                } else {
                    head.extend(ttl_txt);
                    head.extend(class_txt);
                }
                head.push(rec.data.type_mnemonic().to_string());
                let mut first_gap_done = false;
                for h in head {
                    if !first_gap_done {
                        if let LongRun::Blanks(n) = lay.long {
                            if !suppress.contains(&Feature::LongBlankRun) {
                                feats.insert(Feature::LongBlankRun);
                                for _ in 0..(4_096 + n as usize) {
                                    out.push(' ');
                                }
                            }
                        }
                        first_gap_done = true;
                    }
                    out.push_str(sep(&mut bits, &mut feats));
                    out.push_str(&h);
                }

                // ---- RDATA -----------------------------------------------------------------
                let fields = rdata_fields(&rec.data, &mut bits, suppress, &mut feats);
                let n = fields.len();
                let mut rendered: Vec<(String, bool)> = Vec::with_capacity(n); // (text, is quoted string)
                for f in fields {
                    match f {
                        Field::Plain(s) | Field::Param(s) => rendered.push((s, false)),
                        Field::Name(name) | Field::SvcbTarget(name) => {
                            let want = bits.take(2);
                            let txt = if want == 3 && name_eq(&name, &origin) && !suppress.contains(&Feature::AtInRdata) {
                                feats.insert(Feature::AtInRdata);
                                "@".to_string()
                            } else if want >= 1 && !origin.is_empty() && relative_to(&name, &origin).is_some() && !suppress.contains(&Feature::RelativeRdataName) {
                                feats.insert(Feature::RelativeRdataName);
                                print_labels(relative_to(&name, &origin).unwrap(), &mut feats)
                            } else {
                                print_abs(&name, &mut feats)
                            };
                            rendered.push((txt, false));
                        }
                        Field::Str(s) => {
                            if unquotable(&s) && bits.flag() {
                                feats.insert(Feature::UnquotedString);
                                rendered.push((s, false));
                            } else {
                                feats.insert(Feature::QuotedString);
                                rendered.push((print_quoted(&s, &mut feats), true));
                            }
                        }
                    }
                }
                // SVCB relative target is tracked separately (needs the field kind): recompute
                if let ZData::Svcb { target, .. } = &rec.data {
                    let t = &rendered[1].0;
                    if !t.ends_with('.') && t != "@" {
                        if suppress.contains(&Feature::SvcbRelativeTarget) {
                            rendered[1].0 = print_abs(target, &mut feats);
                        } else {
                            feats.insert(Feature::SvcbRelativeTarget);
                        }
                    }
                }

                let mut paren = lay.paren.clone();
                if let Paren::Wrap { open, close, .. } = &paren {
                    let (o, c) = ((*open as usize).min(n.saturating_sub(1)), (*close as usize).min(n.saturating_sub(1)));
                    let (o, c) = (o.min(c), o.max(c));
                    let has_quoted = n > 0 && rendered[o..=c].iter().any(|(_, q)| *q);
                    if n == 0 || (has_quoted && suppress.contains(&Feature::QuotedStringInsideParens)) || suppress.contains(&Feature::Continuation) {
                        paren = Paren::None;
                    }
                }
                match &paren {
                    Paren::None => {
                        for (txt, _) in &rendered {
                            out.push_str(sep(&mut bits, &mut feats));
                            out.push_str(txt);
                        }
                    }
                    Paren::Wrap { open, close, breaks, comment } => {
                        feats.insert(Feature::Continuation);
                        let (o, c) = ((*open as usize).min(n - 1), (*close as usize).min(n - 1));
                        let (o, c) = (o.min(c), o.max(c));
                        let mut comment_pending = comment.clone();
                        for (k, (txt, quoted)) in rendered.iter().enumerate() {
                            let inside_before = k > o && k <= c;
                            if inside_before && (breaks >> ((k - 1) % 16)) & 1 == 1 {
                                // line break inside the group (line terminations are not recognised
                                // within parentheses), optionally preceded by a comment
                                if let Some(cm) = comment_pending.take() {
                                    feats.insert(Feature::CommentInsideParens);
                                    feats.insert(Feature::Comment);
                                    out.push(' ');
                                    out.push_str(&comment_text(&cm));
                                }
                                out.push_str(nl);
                                out.push_str(sep(&mut bits, &mut feats));
                            } else {
                                out.push_str(sep(&mut bits, &mut feats));
                            }
                            if k == o {
                                out.push('(');
                                if bits.flag() {
                                    out.push_str(sep(&mut bits, &mut feats));
                                } else if (breaks >> 15) & 1 == 1 {
                                    out.push_str(nl);
                                    out.push_str(sep(&mut bits, &mut feats));
                                } else {
                                    out.push(' ');
                                }
                            }
                            if *quoted && k >= o && k <= c {
                                feats.insert(Feature::QuotedStringInsideParens);
                            }
                            out.push_str(txt);
                            if k == c {
                                if bits.flag() {
                                    out.push_str(nl);
                                    out.push_str(sep(&mut bits, &mut feats));
                                } else {
                                    out.push(' ');
                                }
                                out.push(')');
                            }
                        }
                    }
                }
                // ---- trailing comment, end of line ---------------------------------------------
                if let LongRun::Comment(nc) = lay.long {
                    if !suppress.contains(&Feature::LongComment) {
                        feats.insert(Feature::LongComment);
                        feats.insert(Feature::Comment);
                        out.push_str(" ; ");
                        for i in 0..(4_096 + nc as usize) {
                            out.push((b'a' + (i % 26) as u8) as char);
                        }
                    }
                } else if let Some(c) = &lay.comment {
                    feats.insert(Feature::Comment);
                    // (decided last, so that the layout choices before it are unaffected)
                    if bits.take(2) == 0 && !suppress.contains(&Feature::GluedComment) {
                        feats.insert(Feature::GluedComment);
                        out.push(';');
                        out.push_str(c);
                    } else {
                        out.push_str(sep(&mut bits, &mut feats));
                        out.push_str(&comment_text(c));
                    }
                }
                out.push_str(nl);
            }
        }
    }
    if !z.final_newline {
        // drop the last line terminator (only if the file ends with one and is not empty)
        if out.ends_with(nl) {
            out.truncate(out.len() - nl.len());
            feats.insert(Feature::NoFinalNewline);
        }
    }
    (out, feats)
}

/// the record set the file denotes: every RR item, flattened and normalised, sorted
pub fn denoted(z: &ZoneFile) -> Vec<Flat> {
    let mut v: Vec<Flat> = z
        .items
        .iter()
        .filter_map(|i| match i {
            Item::Rr { rec, .. } => Some(rec.flat()),
            _ => None,
        })
        .collect();
    v.sort();
    v.dedup();
    v
}

/// Domain check for the exact-load property: RRs of one RRset share one TTL (RFC 2181 §5.2), at
/// most one SOA per file, at most one CNAME / ANAME per owner (RFC 1034 §3.6.2). Returns the
/// reason when the case is outside the domain.
pub fn out_of_domain(z: &ZoneFile) -> Option<&'static str> {
    use std::collections::BTreeMap;
    let flats = denoted(z);
    let mut ttl: BTreeMap<(Labels, String), u32> = BTreeMap::new();
    let mut singles: BTreeMap<(Labels, String), usize> = BTreeMap::new();
    let mut soas = 0;
    for f in &flats {
        if let Some(t) = ttl.insert((f.owner.clone(), f.rtype.clone()), f.ttl) {
            if t != f.ttl {
                return Some("rrset-with-different-ttls");
            }
        }
        if f.rtype == "SOA" {
            soas += 1;
        }
        if f.rtype == "CNAME" || f.rtype == "ANAME" {
            *singles.entry((f.owner.clone(), f.rtype.clone())).or_default() += 1;
        }
    }
    if soas > 1 {
        return Some("more-than-one-soa");
    }
    // RFC 1035 §2.3.4: names are limited to 255 octets, labels to 63
    let too_long = |n: &Labels| n.iter().map(|l| l.len() + 1).sum::<usize>() + 1 > 255 || n.iter().any(|l| l.is_empty() || l.len() > 63);
    for it in &z.items {
        match it {
            Item::Origin { name, .. } if too_long(name) => return Some("name-over-255"),
            Item::Rr { rec, .. } => {
                let mut names: Vec<&Labels> = vec![&rec.owner];
                match &rec.data {
                    ZData::Ns(n) | ZData::Cname(n) | ZData::Ptr(n) | ZData::Aname(n) => names.push(n),
                    ZData::Mx { exch, .. } => names.push(exch),
                    ZData::Soa { mname, rname, .. } => {
                        names.push(mname);
                        names.push(rname);
                    }
                    ZData::Srv { target, .. } | ZData::Svcb { target, .. } => names.push(target),
                    ZData::Naptr { replacement, .. } => names.push(replacement),
                    _ => {}
                }
                if names.into_iter().any(too_long) {
                    return Some("name-over-255");
                }
            }
            _ => {}
        }
    }
    if too_long(&z.origin) {
        return Some("name-over-255");
    }
    if singles.values().any(|n| *n > 1) {
        return Some("more-than-one-cname-at-owner");
    }
    None
}
