//! Reference model of a tiny DNS internet for C19: a zone tree (root + <= 3 levels), NS host
//! names in or out of zone, glue or not, lame / dead / hostile servers, CNAME chains and loops,
//! and an authoritative-server algorithm written from RFC 1034 §4.3.2 (answer / referral with
//! optional glue / NXDOMAIN / NODATA, RFC 2308 §2 negative answers carry the SOA).
//!
//! Nothing here uses hickory: names are lower-case absolute strings ("w.b.a.", "." = root),
//! ancestry is a label-wise suffix test, addresses are `[u8; 4]`.
//!
//! A *raw* description (what proptest generates and shrinks, all cross references are indices
//! taken modulo the respective length, so every raw value denotes a world) is turned into a
//! concrete `World` by `build_world`, a total function.

use std::collections::{BTreeMap, BTreeSet};

use serde::{Deserialize, Serialize};

pub type Dn = String;
pub type Ip = [u8; 4];

pub const ZONE_LABELS: [&str; 3] = ["a", "b", "c"];
/// data owner labels below a zone apex; the last one creates an empty non-terminal `e.<zone>`
pub const DATA_LABELS: [&str; 6] = ["w", "x", "y", "z", "v", "w.e"];
pub const MAX_ZONE_DEPTH: usize = 3;
pub const TTL: u32 = 3600;

// ---------------------------------------------------------------------------------------------
// names

pub fn labels(n: &str) -> Vec<&str> {
    n.split('.').filter(|l| !l.is_empty()).collect()
}

pub fn depth(n: &str) -> usize {
    labels(n).len()
}

/// `name` is `anc` or a descendant of it (label-wise suffix; RFC 1034 §3.1 tree structure)
pub fn at_or_below(name: &str, anc: &str) -> bool {
    let n = labels(name);
    let a = labels(anc);
    n.len() >= a.len() && n[n.len() - a.len()..] == a[..]
}

pub fn strictly_below(name: &str, anc: &str) -> bool {
    at_or_below(name, anc) && depth(name) > depth(anc)
}

pub fn child(label: &str, parent: &str) -> Dn {
    if parent == "." {
        format!("{label}.")
    } else {
        format!("{label}.{parent}")
    }
}

pub fn parent_of(n: &str) -> Dn {
    let l = labels(n);
    if l.len() <= 1 {
        ".".to_string()
    } else {
        format!("{}.", l[1..].join("."))
    }
}

// ---------------------------------------------------------------------------------------------
// records

#[derive(Clone, Debug, PartialEq, Eq, PartialOrd, Ord, Hash, Serialize, Deserialize)]
pub enum Rd {
    A(Ip),
    Ns(Dn),
    Cname(Dn),
    /// SOA identified by its MNAME (all other fields are constants)
    Soa(Dn),
    Txt(String),
    /// an NSEC record identified by its next-name field (injections only: the honest zones of the
    /// model are unsigned)
    Nsec(Dn),
    /// anything the model never produces (used when mapping records coming back from hickory)
    Other(String),
}

#[derive(Clone, Copy, Debug, PartialEq, Eq, PartialOrd, Ord, Hash, Serialize, Deserialize)]
pub enum Qt {
    A,
    Aaaa,
    Ns,
    Cname,
    Txt,
    Soa,
    Other,
}

impl Rd {
    pub fn qt(&self) -> Qt {
        match self {
            Rd::A(_) => Qt::A,
            Rd::Ns(_) => Qt::Ns,
            Rd::Cname(_) => Qt::Cname,
            Rd::Soa(_) => Qt::Soa,
            Rd::Txt(_) => Qt::Txt,
            Rd::Nsec(_) | Rd::Other(_) => Qt::Other,
        }
    }
}

#[derive(Clone, Debug, PartialEq, Eq, PartialOrd, Ord, Hash, Serialize, Deserialize)]
pub struct Rr {
    pub owner: Dn,
    pub rd: Rd,
}

pub fn rr(owner: &str, rd: Rd) -> Rr {
    Rr {
        owner: owner.to_string(),
        rd,
    }
}

pub fn is_poison_ip(ip: Ip) -> bool {
    ip[0] == 203 && ip[1] == 0 && ip[2] == 113
}

/// the recognisable marker: an address in 203.0.113.0/24, a name with a `poison` label, TXT "poison"
pub fn has_marker(r: &Rr) -> bool {
    let name_marked = |n: &str| labels(n).iter().any(|l| *l == "poison");
    match &r.rd {
        Rd::A(ip) => is_poison_ip(*ip),
        Rd::Ns(n) | Rd::Cname(n) | Rd::Soa(n) | Rd::Nsec(n) => name_marked(n),
        Rd::Txt(t) => t == "poison",
        Rd::Other(_) => false,
    }
}

// ---------------------------------------------------------------------------------------------
// raw (generated) description

#[derive(Clone, Debug, Serialize, Deserialize)]
pub struct RawNs {
    /// where the NS host name `ns<k>.<zone>` lives: 0 = in the delegated zone itself, 1 = in its
    /// parent zone, otherwise the zone with index `host_zone` (into root + zones, modulo)
    pub host_sel: u8,
    pub host_zone: u8,
    pub k: u8,
    /// the parent includes an address record for this host in referrals
    pub glue: bool,
    /// which server the host name points to
    pub server: u8,
    /// the server is named by the delegation but does not carry the zone
    pub lame: bool,
}

#[derive(Clone, Debug, Serialize, Deserialize)]
pub enum RawRr {
    A(u8),
    Cname { zone: u8, label: u8 },
    Txt,
}

#[derive(Clone, Debug, Serialize, Deserialize)]
pub struct RawData {
    pub label: u8,
    pub rr: RawRr,
}

#[derive(Clone, Debug, Serialize, Deserialize)]
pub struct RawZone {
    pub parent: u8,
    pub label: u8,
    pub ns: Vec<RawNs>,
    pub data: Vec<RawData>,
    pub apex_a: bool,
}

#[derive(Clone, Debug, Serialize, Deserialize)]
pub enum ChainEnd {
    A,
    Nx,
    /// CNAME back to the element with this index (modulo) — a loop
    LoopTo(u8),
}

#[derive(Clone, Debug, Serialize, Deserialize)]
pub struct RawChain {
    pub slots: Vec<(u8, u8)>,
    pub end: ChainEnd,
}

#[derive(Clone, Debug, Serialize, Deserialize)]
pub enum InjKind {
    /// A record for a victim data name
    VictimA { zone: u8, label: u8 },
    /// NS for a victim zone + glue for the NS host (glue owner under `poison.`)
    VictimNs { zone: u8 },
    /// NS for a victim zone pointing at `poison.<own zone>.` + that host's address
    VictimNsOwnHost { zone: u8 },
    /// CNAME at a victim data name into the attacker's space
    VictimCname { zone: u8, label: u8 },
    /// address for a victim zone's real NS host name (classic glue poisoning)
    VictimNsHostA { zone: u8 },
    /// upward referral: NS for the root + address
    RootNs,
    /// a DNSSEC-typed record (NSEC) at a victim data name: what a "denial proof" of somebody
    /// else's zone looks like
    VictimNsec { zone: u8, label: u8 },
}

#[derive(Clone, Debug, Serialize, Deserialize)]
pub struct RawInj {
    /// 0 answer, 1 authority, 2 additional (modulo 3)
    pub section: u8,
    /// 0 every response, 1 referrals only, 2 authoritative answers only, 3 negative answers only
    pub on: u8,
    pub kind: InjKind,
}

#[derive(Clone, Debug, Serialize, Deserialize)]
pub enum RawServer {
    Honest,
    Hostile(Vec<RawInj>),
    /// never answers
    Dead,
    Refuse,
    ServFail,
}

#[derive(Clone, Debug, Serialize, Deserialize)]
pub struct RawNet {
    pub root_ns: Vec<RawNs>,
    pub zones: Vec<RawZone>,
    pub servers: Vec<RawServer>,
    pub chains: Vec<RawChain>,
    /// authoritative servers also add the records for in-server CNAME targets (RFC 1034 §4.3.2 step 3a)
    pub chase: bool,
    /// an alias *tree*: `f.<zone>` owns `k` CNAME records (which a hostile or sloppy zone can
    /// publish), each target again `k`, `depth` levels deep, leaves own an address. A chain or a
    /// loop visits at most as many names as it has; a tree has k^depth.
    #[serde(default)]
    pub fan: Option<RawFan>,
}

#[derive(Clone, Copy, Debug, Serialize, Deserialize)]
pub struct RawFan {
    pub zone: u8,
    pub k: u8,
    pub depth: u8,
}

// ---------------------------------------------------------------------------------------------
// concrete world

#[derive(Clone, Debug)]
pub struct NsRef {
    pub host: Dn,
    pub glue: bool,
}

#[derive(Clone, Debug)]
pub struct Zone {
    pub name: Dn,
    pub parent: Option<usize>,
    pub children: Vec<usize>,
    pub ns: Vec<NsRef>,
    pub data: BTreeMap<Dn, Vec<Rd>>,
}

#[derive(Clone, Debug, PartialEq, Eq)]
pub enum Kind {
    Honest,
    Hostile,
    Dead,
    Refuse,
    ServFail,
}

#[derive(Clone, Debug)]
pub struct Poison {
    pub section: u8,
    pub on: u8,
    pub rrs: Vec<Rr>,
    /// names worth asking about afterwards: (owner, is a zone)
    pub victim: Dn,
    pub victim_is_zone: bool,
}

#[derive(Clone, Debug)]
pub struct Server {
    pub ip: Ip,
    pub kind: Kind,
    /// zones whose data this server carries
    pub serves: BTreeSet<usize>,
    /// zones for which some NS host name resolves to this server's address (lame or not)
    pub delegated: BTreeSet<usize>,
    pub poison: Vec<Poison>,
}

#[derive(Clone, Debug, Default)]
pub struct Flags {
    pub glueless: bool,
    pub oob_glue: bool,
    pub self_ref: bool,
    pub mutual: bool,
    pub lame: bool,
    pub dead: bool,
    pub cname_loop: bool,
    pub max_chain: usize,
    pub out_of_zone_ns: bool,
}

#[derive(Clone, Debug)]
pub struct World {
    pub zones: Vec<Zone>,
    pub servers: Vec<Server>,
    pub host_addrs: BTreeMap<Dn, BTreeSet<Ip>>,
    pub chase: bool,
    /// counterfactual switch used for attributing a deviation to one root cause: hostile servers
    /// leave the answer section of address lookups for name-server host names alone
    pub spare_ns_address_answers: bool,
    pub flags: Flags,
    /// owner names of each generated CNAME chain, head first
    pub chains: Vec<Vec<Dn>>,
    /// root of the alias tree, if the world has one
    pub fan_root: Option<Dn>,
    /// every record honest data contains (zone contents, delegation NS sets, glue): the only
    /// records a resolution may legitimately hand out
    pub truth: BTreeSet<Rr>,
    /// every record some hostile server injects
    pub injected: BTreeSet<Rr>,
}

pub fn server_ip(i: usize) -> Ip {
    [11, 0, i as u8, 1]
}

pub fn data_ip(zone: usize, v: u8) -> Ip {
    [198, 18, zone as u8, v % 8]
}

pub fn poison_ip(server: usize, n: usize) -> Ip {
    [203, 0, 113, (1 + server * 8 + n % 8) as u8]
}

fn ns_host(zones: &[Zone], zi: usize, e: &RawNs) -> Dn {
    let hz = match e.host_sel {
        0 => zi,
        1 => zones[zi].parent.unwrap_or(0),
        _ => e.host_zone as usize % zones.len(),
    };
    child(&format!("ns{}", 1 + e.k % 2), &zones[hz].name)
}

pub fn data_name(zones: &[Zone], zone: u8, label: u8) -> (usize, Dn) {
    // never the root zone for data names (keeps the root small and realistic)
    let zi = if zones.len() > 1 {
        1 + zone as usize % (zones.len() - 1)
    } else {
        0
    };
    let l = DATA_LABELS[label as usize % DATA_LABELS.len()];
    (zi, child(l, &zones[zi].name))
}

impl World {
    pub fn zone_of_name(&self, name: &str) -> usize {
        // closest enclosing zone in the zone tree
        let mut best = 0;
        for (i, z) in self.zones.iter().enumerate() {
            if at_or_below(name, &z.name) && depth(&z.name) >= depth(&self.zones[best].name) {
                best = i;
            }
        }
        best
    }

    pub fn server_by_ip(&self, ip: Ip) -> Option<usize> {
        self.servers.iter().position(|s| s.ip == ip)
    }

    pub fn root_ips(&self) -> Vec<Ip> {
        let mut v: Vec<Ip> = Vec::new();
        for n in &self.zones[0].ns {
            for ip in self.host_addrs.get(&n.host).into_iter().flatten() {
                if !v.contains(ip) {
                    v.push(*ip);
                }
            }
        }
        v
    }

    /// `name` lies inside some zone delegated to server `s` (in bailiwick for what `s` may say)
    pub fn in_bailiwick_of_server(&self, s: usize, name: &str) -> bool {
        self.servers[s]
            .delegated
            .iter()
            .any(|z| at_or_below(name, &self.zones[*z].name))
    }
}

pub fn build_world(raw: &RawNet) -> World {
    // ---- zone tree --------------------------------------------------------------------------
    let mut zones: Vec<Zone> = vec![Zone {
        name: ".".into(),
        parent: None,
        children: vec![],
        ns: vec![],
        data: BTreeMap::new(),
    }];
    // raw index -> zone index (None: dropped as duplicate / too deep)
    let mut kept: Vec<usize> = Vec::new();
    for (ri, rz) in raw.zones.iter().enumerate() {
        let mut p = rz.parent as usize % zones.len();
        while depth(&zones[p].name) >= MAX_ZONE_DEPTH {
            p = zones[p].parent.unwrap_or(0);
        }
        let name = child(ZONE_LABELS[rz.label as usize % ZONE_LABELS.len()], &zones[p].name);
        if zones.iter().any(|z| z.name == name) {
            continue;
        }
        let idx = zones.len();
        zones[p].children.push(idx);
        zones.push(Zone {
            name,
            parent: Some(p),
            children: vec![],
            ns: vec![],
            data: BTreeMap::new(),
        });
        kept.push(ri);
    }

    let nservers = raw.servers.len().max(1);
    let mut host_addrs: BTreeMap<Dn, BTreeSet<Ip>> = BTreeMap::new();
    let mut serves: Vec<BTreeSet<usize>> = vec![BTreeSet::new(); nservers];
    let mut flags = Flags::default();

    // ---- NS sets ------------------------------------------------------------------------------
    let empty: Vec<RawNs> = vec![RawNs {
        host_sel: 0,
        host_zone: 0,
        k: 0,
        glue: true,
        server: 0,
        lame: false,
    }];
    for zi in 0..zones.len() {
        let entries: &Vec<RawNs> = if zi == 0 {
            if raw.root_ns.is_empty() {
                &empty
            } else {
                &raw.root_ns
            }
        } else if raw.zones[kept[zi - 1]].ns.is_empty() {
            &empty
        } else {
            &raw.zones[kept[zi - 1]].ns
        };
        for e in entries.iter().take(2) {
            let host = ns_host(&zones, zi, e);
            // a host name has one address: whoever names it first decides which server it is
            let s = match host_addrs.get(&host).and_then(|a| a.iter().next()) {
                Some(ip) => ip[2] as usize,
                None => e.server as usize % nservers,
            };
            // the root must be reachable and carried by its servers: hints are configuration
            let lame = e.lame && zi != 0;
            host_addrs.entry(host.clone()).or_default().insert(server_ip(s));
            if !lame {
                serves[s].insert(zi);
            } else {
                flags.lame = true;
            }
            if zones[zi].ns.iter().any(|n| n.host == host) {
                continue;
            }
            let glue = e.glue || zi == 0;
            zones[zi].ns.push(NsRef { host, glue });
        }
    }

    // ---- zone contents --------------------------------------------------------------------------
    for zi in 0..zones.len() {
        let zname = zones[zi].name.clone();
        let mut apex: Vec<Rd> = zones[zi].ns.iter().map(|n| Rd::Ns(n.host.clone())).collect();
        apex.push(Rd::Soa(child("ns1", &zname)));
        if zi > 0 && raw.zones[kept[zi - 1]].apex_a {
            apex.push(Rd::A(data_ip(zi, 7)));
        }
        zones[zi].data.insert(zname.clone(), apex);
        if zi > 0 {
            for d in raw.zones[kept[zi - 1]].data.iter().take(6) {
                let owner = child(DATA_LABELS[d.label as usize % DATA_LABELS.len()], &zname);
                let rd = match &d.rr {
                    RawRr::A(v) => Rd::A(data_ip(zi, *v)),
                    RawRr::Cname { zone, label } => Rd::Cname(data_name(&zones, *zone, *label).1),
                    RawRr::Txt => Rd::Txt("hello".into()),
                };
                // one RRset per data name (a CNAME owner has no other data, RFC 1034 §3.6.2)
                zones[zi].data.insert(owner, vec![rd]);
            }
        }
    }
    // CNAME chains overlay (distinct slots, consecutive links)
    let mut chains_out: Vec<Vec<Dn>> = Vec::new();
    for ch in raw.chains.iter().take(3) {
        let mut names: Vec<(usize, Dn)> = Vec::new();
        for (z, l) in ch.slots.iter().take(20) {
            let n = data_name(&zones, *z, *l);
            if n.0 != 0 && !names.contains(&n) {
                names.push(n);
            }
        }
        for i in 0..names.len() {
            let (zi, owner) = names[i].clone();
            let rd = if i + 1 < names.len() {
                Rd::Cname(names[i + 1].1.clone())
            } else {
                match ch.end {
                    ChainEnd::A => Rd::A(data_ip(zi, 5)),
                    ChainEnd::Nx => Rd::Cname(child("nx", &zones[zi].name)),
                    ChainEnd::LoopTo(k) => Rd::Cname(names[k as usize % names.len()].1.clone()),
                }
            };
            zones[zi].data.insert(owner, vec![rd]);
        }
        chains_out.push(names.into_iter().map(|n| n.1).collect());
    }
    // alias tree overlay
    let mut fan_root = None;
    if let Some(f) = raw.fan {
        let zi = if zones.len() > 1 { 1 + f.zone as usize % (zones.len() - 1) } else { 0 };
        let (k, d) = (f.k.clamp(2, 3) as usize, f.depth.clamp(2, 5) as usize);
        let zname = zones[zi].name.clone();
        let mut level: Vec<String> = vec!["f".to_string()];
        for depth_now in 0..=d {
            let mut next = Vec::new();
            for label in &level {
                let owner = child(label, &zname);
                if depth_now == d {
                    zones[zi].data.insert(owner, vec![Rd::A(data_ip(zi, 9))]);
                } else {
                    let kids: Vec<String> = (0..k).map(|i| format!("{label}{i}")).collect();
                    zones[zi].data.insert(owner, kids.iter().map(|c| Rd::Cname(child(c, &zname))).collect());
                    next.extend(kids);
                }
            }
            level = next;
        }
        fan_root = Some(child("f", &zname));
    }
    // addresses of NS hosts live in the zone that encloses the host name
    for (host, ips) in &host_addrs {
        let mut best = 0;
        for (i, z) in zones.iter().enumerate() {
            if at_or_below(host, &z.name) && depth(&z.name) >= depth(&zones[best].name) {
                best = i;
            }
        }
        zones[best]
            .data
            .insert(host.clone(), ips.iter().map(|ip| Rd::A(*ip)).collect());
    }

    // ---- servers --------------------------------------------------------------------------------
    let mut servers: Vec<Server> = Vec::new();
    for s in 0..nservers {
        let kind = match raw.servers.get(s) {
            Some(RawServer::Hostile(_)) => Kind::Hostile,
            Some(RawServer::Dead) => Kind::Dead,
            Some(RawServer::Refuse) => Kind::Refuse,
            Some(RawServer::ServFail) => Kind::ServFail,
            _ => Kind::Honest,
        };
        let mut delegated = BTreeSet::new();
        for (zi, z) in zones.iter().enumerate() {
            if z.ns.iter().any(|n| host_addrs[&n.host].contains(&server_ip(s))) {
                delegated.insert(zi);
            }
        }
        servers.push(Server {
            ip: server_ip(s),
            kind,
            serves: serves[s].clone(),
            delegated,
            poison: vec![],
        });
    }
    // the root hints must work: servers of the root are honest-or-hostile, never dead/refusing
    // (a resolver without a working root is outside "simulated internets"); hostile roots simply
    // have no out-of-bailiwick name to lie about.
    for s in servers.iter_mut() {
        if s.delegated.contains(&0) && matches!(s.kind, Kind::Dead | Kind::Refuse | Kind::ServFail) {
            s.kind = Kind::Honest;
        }
    }

    // ---- truth ------------------------------------------------------------------------------
    let mut truth: BTreeSet<Rr> = BTreeSet::new();
    for z in &zones {
        for (owner, rds) in &z.data {
            for rd in rds {
                truth.insert(rr(owner, rd.clone()));
            }
        }
    }

    let mut w = World {
        zones,
        servers,
        host_addrs,
        chase: raw.chase,
        spare_ns_address_answers: false,
        flags,
        chains: chains_out,
        fan_root,
        truth,
        injected: BTreeSet::new(),
    };

    // ---- injections (validated: owner outside every zone delegated to the injecting server) ----
    for s in 0..w.servers.len() {
        let Some(RawServer::Hostile(injs)) = raw.servers.get(s) else {
            continue;
        };
        // the attacker's own (deepest delegated) zone, for in-zone attacker host names
        let own = w.servers[s]
            .delegated
            .iter()
            .max_by_key(|z| depth(&w.zones[**z].name))
            .copied();
        // zones this server has no say about: the victims
        let cands: Vec<usize> = (1..w.zones.len())
            .filter(|z| !w.in_bailiwick_of_server(s, &w.zones[*z].name))
            .collect();
        let mut out = Vec::new();
        for (n, inj) in injs.iter().take(4).enumerate() {
            let pip = poison_ip(s, n);
            let pick = |z: u8| cands.get(z as usize % cands.len().max(1)).copied();
            // a victim data name: prefer one that exists
            let pick_name = |z: u8, l: u8| -> Option<Dn> {
                let vz = pick(z)?;
                let zname = &w.zones[vz].name;
                let existing: Vec<&Dn> = w.zones[vz]
                    .data
                    .keys()
                    .filter(|o| *o != zname && !labels(o)[0].starts_with("ns") && !labels(o)[0].starts_with("poison"))
                    .collect();
                if !existing.is_empty() && l % 4 != 3 {
                    Some(existing[l as usize % existing.len()].clone())
                } else {
                    Some(child(DATA_LABELS[l as usize % DATA_LABELS.len()], zname))
                }
            };
            let (victim, is_zone, rrs): (Dn, bool, Vec<Rr>) = match &inj.kind {
                InjKind::VictimA { zone, label } => {
                    let Some(owner) = pick_name(*zone, *label) else { continue };
                    (owner.clone(), false, vec![rr(&owner, Rd::A(pip))])
                }
                InjKind::VictimCname { zone, label } => {
                    let Some(owner) = pick_name(*zone, *label) else { continue };
                    let target = match own {
                        Some(z) if z != 0 => child("poison", &w.zones[z].name),
                        _ => "x.poison.".to_string(),
                    };
                    (owner.clone(), false, vec![rr(&owner, Rd::Cname(target))])
                }
                InjKind::VictimNs { zone } => {
                    let Some(vz) = pick(*zone) else { continue };
                    let vz = w.zones[vz].name.clone();
                    let host = format!("ns{s}.poison.");
                    (vz.clone(), true, vec![rr(&vz, Rd::Ns(host.clone())), rr(&host, Rd::A(pip))])
                }
                InjKind::VictimNsOwnHost { zone } => {
                    let Some(vz) = pick(*zone) else { continue };
                    let vz = w.zones[vz].name.clone();
                    match own {
                        Some(z) if z != 0 => {
                            // the host's address is the attacker's own, legitimate, data
                            let host = child("poison", &w.zones[z].name);
                            w.zones[z].data.insert(host.clone(), vec![Rd::A(pip)]);
                            w.truth.insert(rr(&host, Rd::A(pip)));
                            (vz.clone(), true, vec![rr(&vz, Rd::Ns(host))])
                        }
                        _ => continue,
                    }
                }
                InjKind::VictimNsHostA { zone } => {
                    let Some(vzi) = pick(*zone) else { continue };
                    let Some(nsr) = w.zones[vzi].ns.first() else { continue };
                    let host = nsr.host.clone();
                    (w.zones[vzi].name.clone(), true, vec![rr(&host, Rd::A(pip))])
                }
                InjKind::VictimNsec { zone, label } => {
                    let Some(owner) = pick_name(*zone, *label) else { continue };
                    (owner.clone(), false, vec![rr(&owner, Rd::Nsec(format!("n{s}.poison.")))])
                }
                InjKind::RootNs => {
                    let host = format!("root{s}.poison.");
                    (".".to_string(), true, vec![rr(".", Rd::Ns(host.clone())), rr(&host, Rd::A(pip))])
                }
            };
            // soundness: every injected record must be out of bailiwick for this server
            if rrs.iter().any(|r| w.in_bailiwick_of_server(s, &r.owner)) {
                continue;
            }
            for r in &rrs {
                w.injected.insert(r.clone());
            }
            out.push(Poison {
                section: inj.section % 3,
                on: inj.on % 4,
                rrs,
                victim,
                victim_is_zone: is_zone,
            });
        }
        w.servers[s].poison = out;
    }
    // an injected record that happens to be true is not poison
    let truth = w.truth.clone();
    w.injected.retain(|r| !truth.contains(r));

    compute_flags(&mut w);
    w
}

fn compute_flags(w: &mut World) {
    let mut f = w.flags.clone();
    f.dead = w
        .servers
        .iter()
        .any(|s| !s.delegated.is_empty() && matches!(s.kind, Kind::Dead | Kind::Refuse | Kind::ServFail));
    // zone -> zones whose resolution it needs for lack of usable glue
    let mut needs: Vec<BTreeSet<usize>> = vec![BTreeSet::new(); w.zones.len()];
    for (zi, z) in w.zones.iter().enumerate().skip(1) {
        let pname = &w.zones[z.parent.unwrap()].name;
        for n in &z.ns {
            let in_zone = at_or_below(&n.host, &z.name);
            let in_parent_bailiwick = at_or_below(&n.host, pname);
            if !in_zone {
                f.out_of_zone_ns = true;
            }
            if n.glue && !in_parent_bailiwick {
                f.oob_glue = true;
            }
            if !n.glue || !in_parent_bailiwick {
                f.glueless = true;
                let hz = w.zone_of_name(&n.host);
                needs[zi].insert(hz);
                if in_zone {
                    f.self_ref = true;
                }
            }
        }
    }
    // dependency graph: resolving zone a needs, for each glueless NS host, the host's zone and
    // all non-root ancestors of that zone; a cycle means some delegation can never be resolved
    let nz = w.zones.len();
    let mut g: Vec<BTreeSet<usize>> = vec![BTreeSet::new(); nz];
    for a in 1..nz {
        for b in &needs[a] {
            let mut x = Some(*b);
            while let Some(xi) = x {
                if xi == 0 {
                    break;
                }
                g[a].insert(xi);
                x = w.zones[xi].parent;
            }
        }
    }
    for a in 1..nz {
        let mut seen: BTreeSet<usize> = BTreeSet::new();
        let mut stack: Vec<usize> = g[a].iter().copied().collect();
        while let Some(x) = stack.pop() {
            if x == a {
                f.mutual = true;
                break;
            }
            if seen.insert(x) {
                stack.extend(g[x].iter().copied());
            }
        }
    }
    // CNAME structure
    let mut cn: BTreeMap<&str, &str> = BTreeMap::new();
    for z in &w.zones {
        for (o, rds) in &z.data {
            if let Some(Rd::Cname(t)) = rds.first() {
                cn.insert(o.as_str(), t.as_str());
            }
        }
    }
    for start in cn.keys() {
        let mut seen = BTreeSet::new();
        let mut cur = *start;
        let mut len = 0;
        while let Some(t) = cn.get(cur) {
            if !seen.insert(cur) {
                f.cname_loop = true;
                break;
            }
            len += 1;
            cur = t;
        }
        f.max_chain = f.max_chain.max(len);
    }
    w.flags = f;
}

// ---------------------------------------------------------------------------------------------
// the authoritative server (RFC 1034 §4.3.2)

#[derive(Clone, Copy, Debug, PartialEq, Eq)]
pub enum Rcode {
    NoError,
    NxDomain,
    Refused,
    ServFail,
}

#[derive(Clone, Debug)]
pub struct Resp {
    pub rcode: Rcode,
    pub aa: bool,
    pub answers: Vec<Rr>,
    pub authority: Vec<Rr>,
    pub additional: Vec<Rr>,
    pub referral: bool,
    /// number of injected (out-of-bailiwick) records in this response
    pub poison: usize,
    /// the injected records with the section (0 answer, 1 authority, 2 additional) they went into
    pub poison_rrs: Vec<(u8, Rr)>,
}

impl Resp {
    fn empty(rcode: Rcode) -> Self {
        Resp {
            rcode,
            aa: false,
            answers: vec![],
            authority: vec![],
            additional: vec![],
            referral: false,
            poison: 0,
            poison_rrs: vec![],
        }
    }
}

fn soa_of(z: &Zone) -> Rr {
    rr(&z.name, Rd::Soa(child("ns1", &z.name)))
}

/// the zone among those carried by `s` that most closely encloses `qname` (§4.3.2 step 2)
fn best_zone(w: &World, s: usize, qname: &str) -> Option<usize> {
    w.servers[s]
        .serves
        .iter()
        .filter(|z| at_or_below(qname, &w.zones[**z].name))
        .max_by_key(|z| depth(&w.zones[**z].name))
        .copied()
}

fn name_exists(z: &Zone, w: &World, qname: &str) -> bool {
    // empty non-terminals exist (RFC 4592 §2.2.2): some owner or zone cut lies below
    z.data.keys().any(|o| at_or_below(o, qname))
        || z.children.iter().any(|c| at_or_below(&w.zones[*c].name, qname))
}

/// What server `s` says to (qname, qtype); `None` = no reply at all.
pub fn answer(w: &World, s: usize, qname: &str, qt: Qt) -> Option<Resp> {
    let mut resp = match w.servers[s].kind {
        Kind::Dead => return None,
        Kind::Refuse => Resp::empty(Rcode::Refused),
        Kind::ServFail => Resp::empty(Rcode::ServFail),
        Kind::Honest | Kind::Hostile => honest_answer(w, s, qname, qt),
    };
    if w.servers[s].kind == Kind::Hostile && matches!(resp.rcode, Rcode::NoError | Rcode::NxDomain) {
        let negative = resp.answers.is_empty() && !resp.referral;
        for p in &w.servers[s].poison {
            let fire = match p.on {
                0 => true,
                1 => resp.referral,
                2 => !resp.answers.is_empty(),
                _ => negative,
            };
            if !fire {
                continue;
            }
            if w.spare_ns_address_answers && p.section == 0 && matches!(qt, Qt::A | Qt::Aaaa) && w.host_addrs.contains_key(qname) {
                continue;
            }
            let rrs: Vec<Rr> = p.rrs.iter().filter(|r| w.injected.contains(r)).cloned().collect();
            resp.poison += rrs.len();
            resp.poison_rrs.extend(rrs.iter().map(|r| (p.section, r.clone())));
            match p.section {
                0 => resp.answers.extend(rrs),
                1 => resp.authority.extend(rrs),
                _ => resp.additional.extend(rrs),
            }
        }
    }
    Some(resp)
}

fn honest_answer(w: &World, s: usize, qname: &str, qt: Qt) -> Resp {
    // step 2: nearest enclosing zone this server carries; none -> not authoritative: REFUSED
    let Some(zi) = best_zone(w, s, qname) else {
        return Resp::empty(Rcode::Refused);
    };
    let mut resp = Resp::empty(Rcode::NoError);
    let mut cur_zone = zi;
    let mut cur_name = qname.to_string();
    let mut hops = 0;
    loop {
        let z = &w.zones[cur_zone];
        // step 3b: a delegation on the way down -> referral (only when nothing answered yet)
        if let Some(c) = z.children.iter().find(|c| at_or_below(&cur_name, &w.zones[**c].name)) {
            if resp.answers.is_empty() {
                let cz = &w.zones[*c];
                for n in &cz.ns {
                    resp.authority.push(rr(&cz.name, Rd::Ns(n.host.clone())));
                    if n.glue {
                        for ip in &w.host_addrs[&n.host] {
                            resp.additional.push(rr(&n.host, Rd::A(*ip)));
                        }
                    }
                }
                resp.referral = true;
                resp.aa = false;
            }
            return resp;
        }
        resp.aa = true;
        match z.data.get(&cur_name) {
            // step 3a: CNAME and the query is not for CNAME: copy it, restart at the target
            // several CNAME records at one owner (the alias tree): all of them, nothing chased
            Some(rds) if rds.len() > 1 && matches!(rds.first(), Some(Rd::Cname(_))) && qt != Qt::Cname => {
                for rd in rds {
                    resp.answers.push(rr(&cur_name, rd.clone()));
                }
                return resp;
            }
            Some(rds) if matches!(rds.first(), Some(Rd::Cname(_))) && qt != Qt::Cname => {
                let Rd::Cname(t) = rds[0].clone() else { unreachable!() };
                resp.answers.push(rr(&cur_name, rds[0].clone()));
                hops += 1;
                if !w.chase || hops > 8 {
                    return resp;
                }
                match best_zone(w, s, &t) {
                    Some(nz) => {
                        cur_zone = nz;
                        cur_name = t;
                    }
                    None => return resp,
                }
            }
            Some(rds) if rds.iter().any(|r| r.qt() == qt) => {
                for rd in rds.iter().filter(|r| r.qt() == qt) {
                    resp.answers.push(rr(&cur_name, rd.clone()));
                }
                if qt == Qt::Ns {
                    // additional section processing (§4.3.2 step 6): addresses the server knows
                    for n in &z.ns {
                        if best_zone(w, s, &n.host).is_some_and(|hz| w.zones[hz].data.contains_key(&n.host)) {
                            for ip in &w.host_addrs[&n.host] {
                                resp.additional.push(rr(&n.host, Rd::A(*ip)));
                            }
                        }
                    }
                }
                return resp;
            }
            _ => {
                if resp.answers.is_empty() {
                    // negative answers carry the SOA (RFC 2308 §2.1, §2.2)
                    resp.authority.push(soa_of(z));
                    if !name_exists(z, w, &cur_name) {
                        resp.rcode = Rcode::NxDomain;
                    }
                }
                return resp;
            }
        }
    }
}
