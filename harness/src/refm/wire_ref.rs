//! Independent wire model of DNS messages (RFC 1035 §4, RFC 3597, RFC 6891, RFC 4034, RFC 5155,
//! RFC 9460, RFC 8945 …): typed model values, an encoder written from the RFC text (optionally
//! with name compression), and a splitter that cuts raw packets into resource records without
//! interpreting RDATA. Shares no code with hickory.

use serde::{Deserialize, Serialize};

use crate::gen::names::MName;

pub type Lbls = Vec<Vec<u8>>;

// RR type codes
pub const T_A: u16 = 1;
pub const T_NS: u16 = 2;
pub const T_CNAME: u16 = 5;
pub const T_SOA: u16 = 6;
pub const T_NULL: u16 = 10;
pub const T_PTR: u16 = 12;
pub const T_HINFO: u16 = 13;
pub const T_MX: u16 = 15;
pub const T_TXT: u16 = 16;
pub const T_SIG: u16 = 24;
pub const T_KEY: u16 = 25;
pub const T_AAAA: u16 = 28;
pub const T_SRV: u16 = 33;
pub const T_NAPTR: u16 = 35;
pub const T_CERT: u16 = 37;
pub const T_OPT: u16 = 41;
pub const T_DS: u16 = 43;
pub const T_SSHFP: u16 = 44;
pub const T_RRSIG: u16 = 46;
pub const T_NSEC: u16 = 47;
pub const T_DNSKEY: u16 = 48;
pub const T_NSEC3: u16 = 50;
pub const T_NSEC3PARAM: u16 = 51;
pub const T_TLSA: u16 = 52;
pub const T_SMIMEA: u16 = 53;
pub const T_CDS: u16 = 59;
pub const T_CDNSKEY: u16 = 60;
pub const T_OPENPGPKEY: u16 = 61;
pub const T_CSYNC: u16 = 62;
pub const T_SVCB: u16 = 64;
pub const T_HTTPS: u16 = 65;
pub const T_TSIG: u16 = 250;
pub const T_CAA: u16 = 257;
pub const T_ANAME: u16 = 65305;

/// types whose RDATA names a sender may compress (RFC 1035 §3.3 well-known types; RFC 3597 §4)
pub fn compressible(t: u16) -> bool {
    matches!(t, T_NS | T_CNAME | T_PTR | T_MX | T_SOA)
}

#[derive(Clone, Debug, PartialEq, Eq, Hash, Serialize, Deserialize)]
pub enum MRData {
    A([u8; 4]),
    Aaaa([u8; 16]),
    /// NS, CNAME, PTR, ANAME: a single name
    NameOnly { rtype: u16, name: Lbls },
    Mx { pref: u16, name: Lbls },
    Soa { mname: Lbls, rname: Lbls, serial: u32, refresh: i32, retry: i32, expire: i32, minimum: u32 },
    Srv { prio: u16, weight: u16, port: u16, target: Lbls },
    Txt(Vec<Vec<u8>>),
    Hinfo { cpu: Vec<u8>, os: Vec<u8> },
    Naptr { order: u16, pref: u16, flags: Vec<u8>, services: Vec<u8>, regexp: Vec<u8>, replacement: Lbls },
    Caa { flags: u8, tag: Vec<u8>, value: Vec<u8> },
    Cert { cert_type: u16, key_tag: u16, alg: u8, data: Vec<u8> },
    Csync { serial: u32, flags: u16, types: Vec<u16> },
    Sshfp { alg: u8, fptype: u8, fp: Vec<u8> },
    /// TLSA (52) or SMIMEA (53)
    Tlsa { rtype: u16, usage: u8, selector: u8, matching: u8, data: Vec<u8> },
    Openpgpkey(Vec<u8>),
    Null(Vec<u8>),
    /// RFC 3597 opaque RDATA for a type code hickory has no codec for
    Unknown { code: u16, data: Vec<u8> },
    /// SVCB (64) or HTTPS (65); params = (key, value octets) in strictly increasing key order
    Svcb { rtype: u16, prio: u16, target: Lbls, params: Vec<(u16, Vec<u8>)> },
    /// DNSKEY (48), CDNSKEY (60), KEY (25)
    Dnskey { rtype: u16, flags: u16, proto: u8, alg: u8, key: Vec<u8> },
    /// DS (43), CDS (59)
    Ds { rtype: u16, tag: u16, alg: u8, digtype: u8, digest: Vec<u8> },
    Nsec { next: Lbls, types: Vec<u16> },
    Nsec3 { hash_alg: u8, flags: u8, iterations: u16, salt: Vec<u8>, next: Vec<u8>, types: Vec<u16> },
    Nsec3param { hash_alg: u8, flags: u8, iterations: u16, salt: Vec<u8> },
    /// RRSIG (46) or SIG (24)
    Rrsig { rtype: u16, covered: u16, alg: u8, labels: u8, ottl: u32, exp: u32, inc: u32, tag: u16, signer: Lbls, sig: Vec<u8> },
    Tsig { alg: Lbls, time: u64, fudge: u16, mac: Vec<u8>, oid: u16, error: u16, other: Vec<u8> },
    /// OPT pseudo-RR options (code, data)
    Opt(Vec<(u16, Vec<u8>)>),
}

impl MRData {
    pub fn rtype(&self) -> u16 {
        match self {
            MRData::A(_) => T_A,
            MRData::Aaaa(_) => T_AAAA,
            MRData::NameOnly { rtype, .. } => *rtype,
            MRData::Mx { .. } => T_MX,
            MRData::Soa { .. } => T_SOA,
            MRData::Srv { .. } => T_SRV,
            MRData::Txt(_) => T_TXT,
            MRData::Hinfo { .. } => T_HINFO,
            MRData::Naptr { .. } => T_NAPTR,
            MRData::Caa { .. } => T_CAA,
            MRData::Cert { .. } => T_CERT,
            MRData::Csync { .. } => T_CSYNC,
            MRData::Sshfp { .. } => T_SSHFP,
            MRData::Tlsa { rtype, .. } => *rtype,
            MRData::Openpgpkey(_) => T_OPENPGPKEY,
            MRData::Null(_) => T_NULL,
            MRData::Unknown { code, .. } => *code,
            MRData::Svcb { rtype, .. } => *rtype,
            MRData::Dnskey { rtype, .. } => *rtype,
            MRData::Ds { rtype, .. } => *rtype,
            MRData::Nsec { .. } => T_NSEC,
            MRData::Nsec3 { .. } => T_NSEC3,
            MRData::Nsec3param { .. } => T_NSEC3PARAM,
            MRData::Rrsig { rtype, .. } => *rtype,
            MRData::Tsig { .. } => T_TSIG,
            MRData::Opt(_) => T_OPT,
        }
    }

    pub fn variant(&self) -> &'static str {
        match self {
            MRData::A(_) => "A",
            MRData::Aaaa(_) => "AAAA",
            MRData::NameOnly { rtype, .. } => match *rtype {
                T_NS => "NS",
                T_CNAME => "CNAME",
                T_PTR => "PTR",
                _ => "ANAME",
            },
            MRData::Mx { .. } => "MX",
            MRData::Soa { .. } => "SOA",
            MRData::Srv { .. } => "SRV",
            MRData::Txt(_) => "TXT",
            MRData::Hinfo { .. } => "HINFO",
            MRData::Naptr { .. } => "NAPTR",
            MRData::Caa { .. } => "CAA",
            MRData::Cert { .. } => "CERT",
            MRData::Csync { .. } => "CSYNC",
            MRData::Sshfp { .. } => "SSHFP",
            MRData::Tlsa { rtype, .. } => {
                if *rtype == T_TLSA {
                    "TLSA"
                } else {
                    "SMIMEA"
                }
            }
            MRData::Openpgpkey(_) => "OPENPGPKEY",
            MRData::Null(_) => "NULL",
            MRData::Unknown { .. } => "Unknown",
            MRData::Svcb { rtype, .. } => {
                if *rtype == T_SVCB {
                    "SVCB"
                } else {
                    "HTTPS"
                }
            }
            MRData::Dnskey { rtype, .. } => match *rtype {
                T_DNSKEY => "DNSKEY",
                T_CDNSKEY => "CDNSKEY",
                _ => "KEY",
            },
            MRData::Ds { rtype, .. } => {
                if *rtype == T_DS {
                    "DS"
                } else {
                    "CDS"
                }
            }
            MRData::Nsec { .. } => "NSEC",
            MRData::Nsec3 { .. } => "NSEC3",
            MRData::Nsec3param { .. } => "NSEC3PARAM",
            MRData::Rrsig { rtype, .. } => {
                if *rtype == T_RRSIG {
                    "RRSIG"
                } else {
                    "SIG"
                }
            }
            MRData::Tsig { .. } => "TSIG",
            MRData::Opt(_) => "OPT",
        }
    }
}

#[derive(Clone, Debug, PartialEq, Eq, Hash, Serialize, Deserialize)]
pub struct MRecord {
    pub owner: Lbls,
    pub class: u16,
    pub ttl: u32,
    pub data: MRData,
}

#[derive(Clone, Debug, PartialEq, Eq, Hash, Serialize, Deserialize)]
pub struct MQuestion {
    pub name: Lbls,
    pub qtype: u16,
    pub qclass: u16,
}

#[derive(Clone, Debug, PartialEq, Eq, Hash, Serialize, Deserialize)]
pub struct MEdns {
    pub payload: u16,
    pub version: u8,
    pub dnssec_ok: bool,
    pub z: u16,
    pub options: Vec<(u16, Vec<u8>)>,
}

#[derive(Clone, Debug, PartialEq, Eq, Hash, Serialize, Deserialize)]
pub struct MMessage {
    pub id: u16,
    pub qr: bool,
    pub opcode: u8,
    pub aa: bool,
    pub tc: bool,
    pub rd: bool,
    pub ra: bool,
    pub z: bool,
    pub ad: bool,
    pub cd: bool,
    /// full (possibly extended, 12-bit) response code; the upper 8 bits need EDNS
    pub rcode: u16,
    pub questions: Vec<MQuestion>,
    pub answers: Vec<MRecord>,
    pub authorities: Vec<MRecord>,
    pub additionals: Vec<MRecord>,
    pub edns: Option<MEdns>,
    /// position of the OPT RR among the additionals (index it is inserted before; clamped)
    pub edns_pos: usize,
    pub tsig: Option<(Lbls, MRData)>,
}

impl MMessage {
    pub fn record_count(&self) -> usize {
        self.answers.len() + self.authorities.len() + self.additionals.len()
    }
    pub fn all_records(&self) -> impl Iterator<Item = &MRecord> {
        self.answers.iter().chain(self.authorities.iter()).chain(self.additionals.iter())
    }
}

// ---------------------------------------------------------------------------------------------
// encoder

#[derive(Clone, Copy, Debug, PartialEq, Eq, Serialize, Deserialize)]
pub enum Compress {
    /// no pointers anywhere
    None,
    /// owner/question names and RDATA names of the RFC 1035 well-known types (what RFC 3597 allows)
    Standard,
    /// additionally inside RDATA of every type (legal to *receive* for old types, seen in the wild)
    Everywhere,
}

pub struct Enc {
    pub buf: Vec<u8>,
    /// (offset, fully expanded labels from that offset to the root)
    table: Vec<(usize, Lbls)>,
    /// match suffixes case-insensitively (a pointer to a differently-cased copy is legal; the
    /// decoder then sees the target's case) — only used for decoder-side tests
    pub fold_case: bool,
}

impl Default for Enc {
    fn default() -> Self {
        Self::new()
    }
}

impl Enc {
    pub fn new() -> Self {
        Self { buf: Vec::new(), table: Vec::new(), fold_case: false }
    }
    pub fn u8(&mut self, v: u8) {
        self.buf.push(v);
    }
    pub fn u16(&mut self, v: u16) {
        self.buf.extend_from_slice(&v.to_be_bytes());
    }
    pub fn u32(&mut self, v: u32) {
        self.buf.extend_from_slice(&v.to_be_bytes());
    }
    pub fn bytes(&mut self, v: &[u8]) {
        self.buf.extend_from_slice(v);
    }
    /// <character-string>: one length octet then the octets (RFC 1035 §3.3)
    pub fn charstr(&mut self, v: &[u8]) {
        debug_assert!(v.len() <= 255);
        self.buf.push(v.len() as u8);
        self.buf.extend_from_slice(v);
    }
    pub fn name(&mut self, labels: &[Vec<u8>], compress: bool) {
        let mut i = 0;
        while i < labels.len() {
            let suffix = &labels[i..];
            if compress {
                let hit = self.table.iter().find(|(_, l)| {
                    if self.fold_case {
                        crate::refm::canon::name_eq(l, suffix)
                    } else {
                        l.as_slice() == suffix
                    }
                });
                if let Some((off, _)) = hit {
                    let ptr = 0xC000u16 | (*off as u16);
                    self.u16(ptr);
                    return;
                }
            }
            let off = self.buf.len();
            if off < 0x4000 {
                self.table.push((off, suffix.to_vec()));
            }
            self.buf.push(labels[i].len() as u8);
            self.buf.extend_from_slice(&labels[i]);
            i += 1;
        }
        self.buf.push(0);
    }
}

/// RFC 4034 §4.1.2 type bitmap: window blocks in increasing order, each with 1..32 bitmap octets
pub fn type_bitmap(types: &[u16]) -> Vec<u8> {
    let mut t: Vec<u16> = types.to_vec();
    t.sort();
    t.dedup();
    let mut out = Vec::new();
    let mut i = 0;
    while i < t.len() {
        let window = (t[i] >> 8) as u8;
        let mut bits = [0u8; 32];
        let mut maxoct = 0usize;
        while i < t.len() && (t[i] >> 8) as u8 == window {
            let low = (t[i] & 0xff) as usize;
            bits[low / 8] |= 0x80 >> (low % 8);
            maxoct = maxoct.max(low / 8);
            i += 1;
        }
        out.push(window);
        out.push((maxoct + 1) as u8);
        out.extend_from_slice(&bits[..=maxoct]);
    }
    out
}

pub fn encode_rdata(e: &mut Enc, d: &MRData, mode: Compress) {
    let std = mode != Compress::None;
    let every = mode == Compress::Everywhere;
    match d {
        MRData::A(a) => e.bytes(a),
        MRData::Aaaa(a) => e.bytes(a),
        MRData::NameOnly { rtype, name } => e.name(name, if compressible(*rtype) { std } else { every }),
        MRData::Mx { pref, name } => {
            e.u16(*pref);
            e.name(name, std);
        }
        MRData::Soa { mname, rname, serial, refresh, retry, expire, minimum } => {
            e.name(mname, std);
            e.name(rname, std);
            e.u32(*serial);
            e.u32(*refresh as u32);
            e.u32(*retry as u32);
            e.u32(*expire as u32);
            e.u32(*minimum);
        }
        MRData::Srv { prio, weight, port, target } => {
            e.u16(*prio);
            e.u16(*weight);
            e.u16(*port);
            e.name(target, every);
        }
        MRData::Txt(strings) => {
            for s in strings {
                e.charstr(s);
            }
        }
        MRData::Hinfo { cpu, os } => {
            e.charstr(cpu);
            e.charstr(os);
        }
        MRData::Naptr { order, pref, flags, services, regexp, replacement } => {
            e.u16(*order);
            e.u16(*pref);
            e.charstr(flags);
            e.charstr(services);
            e.charstr(regexp);
            e.name(replacement, every);
        }
        MRData::Caa { flags, tag, value } => {
            e.u8(*flags);
            e.charstr(tag);
            e.bytes(value);
        }
        MRData::Cert { cert_type, key_tag, alg, data } => {
            e.u16(*cert_type);
            e.u16(*key_tag);
            e.u8(*alg);
            e.bytes(data);
        }
        MRData::Csync { serial, flags, types } => {
            e.u32(*serial);
            e.u16(*flags);
            e.bytes(&type_bitmap(types));
        }
        MRData::Sshfp { alg, fptype, fp } => {
            e.u8(*alg);
            e.u8(*fptype);
            e.bytes(fp);
        }
        MRData::Tlsa { usage, selector, matching, data, .. } => {
            e.u8(*usage);
            e.u8(*selector);
            e.u8(*matching);
            e.bytes(data);
        }
        MRData::Openpgpkey(d) | MRData::Null(d) => e.bytes(d),
        MRData::Unknown { data, .. } => e.bytes(data),
        MRData::Svcb { prio, target, params, .. } => {
            e.u16(*prio);
            e.name(target, false); // RFC 9460 §2.2: MUST NOT be compressed
            for (k, v) in params {
                e.u16(*k);
                e.u16(v.len() as u16);
                e.bytes(v);
            }
        }
        MRData::Dnskey { flags, proto, alg, key, .. } => {
            e.u16(*flags);
            e.u8(*proto);
            e.u8(*alg);
            e.bytes(key);
        }
        MRData::Ds { tag, alg, digtype, digest, .. } => {
            e.u16(*tag);
            e.u8(*alg);
            e.u8(*digtype);
            e.bytes(digest);
        }
        MRData::Nsec { next, types } => {
            e.name(next, every);
            e.bytes(&type_bitmap(types));
        }
        MRData::Nsec3 { hash_alg, flags, iterations, salt, next, types } => {
            e.u8(*hash_alg);
            e.u8(*flags);
            e.u16(*iterations);
            e.charstr(salt);
            e.charstr(next);
            e.bytes(&type_bitmap(types));
        }
        MRData::Nsec3param { hash_alg, flags, iterations, salt } => {
            e.u8(*hash_alg);
            e.u8(*flags);
            e.u16(*iterations);
            e.charstr(salt);
        }
        MRData::Rrsig { covered, alg, labels, ottl, exp, inc, tag, signer, sig, .. } => {
            e.u16(*covered);
            e.u8(*alg);
            e.u8(*labels);
            e.u32(*ottl);
            e.u32(*exp);
            e.u32(*inc);
            e.u16(*tag);
            e.name(signer, every);
            e.bytes(sig);
        }
        MRData::Tsig { alg, time, fudge, mac, oid, error, other } => {
            e.name(alg, false);
            e.u16((*time >> 32) as u16);
            e.u32(*time as u32);
            e.u16(*fudge);
            e.u16(mac.len() as u16);
            e.bytes(mac);
            e.u16(*oid);
            e.u16(*error);
            e.u16(other.len() as u16);
            e.bytes(other);
        }
        MRData::Opt(opts) => {
            for (c, d) in opts {
                e.u16(*c);
                e.u16(d.len() as u16);
                e.bytes(d);
            }
        }
    }
}

/// uncompressed RDATA octets of a model value
pub fn rdata_bytes(d: &MRData) -> Vec<u8> {
    let mut e = Enc::new();
    encode_rdata(&mut e, d, Compress::None);
    e.buf
}

pub fn encode_record(e: &mut Enc, owner: &[Vec<u8>], rtype: u16, class: u16, ttl: u32, d: &MRData, mode: Compress) {
    e.name(owner, mode != Compress::None);
    e.u16(rtype);
    e.u16(class);
    e.u32(ttl);
    let at = e.buf.len();
    e.u16(0);
    encode_rdata(e, d, mode);
    let len = e.buf.len() - at - 2;
    e.buf[at..at + 2].copy_from_slice(&(len as u16).to_be_bytes());
}

pub fn edns_ttl(edns: &MEdns, rcode: u16) -> u32 {
    ((rcode >> 4) as u32) << 24 | (edns.version as u32) << 16 | if edns.dnssec_ok { 0x8000 } else { 0 } | (edns.z & 0x7fff) as u32
}

/// offsets: (start, end) of every RR in emission order, for limit placement
pub struct Encoded {
    pub bytes: Vec<u8>,
    pub question_end: usize,
    /// (section 0..3, start, rdata_start, end) — OPT and TSIG included as additionals
    pub rr_spans: Vec<(u8, usize, usize, usize)>,
}

pub fn encode_message(m: &MMessage, mode: Compress, fold_case: bool) -> Encoded {
    let mut e = Enc::new();
    e.fold_case = fold_case;
    e.u16(m.id);
    let mut f: u16 = 0;
    if m.qr {
        f |= 0x8000;
    }
    f |= ((m.opcode & 0xf) as u16) << 11;
    if m.aa {
        f |= 0x0400;
    }
    if m.tc {
        f |= 0x0200;
    }
    if m.rd {
        f |= 0x0100;
    }
    if m.ra {
        f |= 0x0080;
    }
    if m.z {
        f |= 0x0040;
    }
    if m.ad {
        f |= 0x0020;
    }
    if m.cd {
        f |= 0x0010;
    }
    f |= m.rcode & 0xf;
    e.u16(f);
    let extra = m.edns.is_some() as usize + m.tsig.is_some() as usize;
    e.u16(m.questions.len() as u16);
    e.u16(m.answers.len() as u16);
    e.u16(m.authorities.len() as u16);
    e.u16((m.additionals.len() + extra) as u16);
    for q in &m.questions {
        e.name(&q.name, mode != Compress::None);
        e.u16(q.qtype);
        e.u16(q.qclass);
    }
    let question_end = e.buf.len();
    let mut spans = Vec::new();
    let mut rec = |e: &mut Enc, sec: u8, owner: &[Vec<u8>], rtype: u16, class: u16, ttl: u32, d: &MRData| {
        let start = e.buf.len();
        encode_record(e, owner, rtype, class, ttl, d, mode);
        // rdata start = end - rdlength
        let end = e.buf.len();
        // find RDLENGTH: we know rdata length from the two octets before rdata; recompute by scanning
        // backwards is unsafe with compression, so recompute from a fresh split below
        spans.push((sec, start, 0usize, end));
    };
    for r in &m.answers {
        rec(&mut e, 1, &r.owner, r.data.rtype(), r.class, r.ttl, &r.data);
    }
    for r in &m.authorities {
        rec(&mut e, 2, &r.owner, r.data.rtype(), r.class, r.ttl, &r.data);
    }
    let pos = m.edns_pos.min(m.additionals.len());
    for (i, r) in m.additionals.iter().enumerate() {
        if i == pos {
            if let Some(ed) = &m.edns {
                rec(&mut e, 3, &[], T_OPT, ed.payload, edns_ttl(ed, m.rcode), &MRData::Opt(ed.options.clone()));
            }
        }
        rec(&mut e, 3, &r.owner, r.data.rtype(), r.class, r.ttl, &r.data);
    }
    if pos >= m.additionals.len() {
        if let Some(ed) = &m.edns {
            rec(&mut e, 3, &[], T_OPT, ed.payload, edns_ttl(ed, m.rcode), &MRData::Opt(ed.options.clone()));
        }
    }
    if let Some((kname, t)) = &m.tsig {
        rec(&mut e, 3, kname, T_TSIG, 255, 0, t);
    }
    let bytes = e.buf;
    // fill rdata_start via the splitter (independent of how we encoded)
    if let Ok(sp) = split(&bytes) {
        for (s, rr) in spans.iter_mut().zip(sp.records.iter()) {
            s.2 = rr.rdata_start;
        }
    }
    Encoded { bytes, question_end, rr_spans: spans }
}

// ---------------------------------------------------------------------------------------------
// splitter: raw packet -> header + RR frames, never interpreting RDATA

#[derive(Clone, Debug)]
pub struct RawRr {
    pub section: u8,
    pub start: usize,
    pub owner: Lbls,
    pub rtype: u16,
    pub class: u16,
    pub ttl: u32,
    pub rdata_start: usize,
    pub rdata_end: usize,
}

#[derive(Clone, Debug)]
pub struct RawMsg {
    pub id: u16,
    pub flags: u16,
    pub counts: [u16; 4],
    pub questions: Vec<(Lbls, u16, u16)>,
    pub records: Vec<RawRr>,
    pub end: usize,
}

/// read a (possibly compressed) name at `pos`; returns labels and the offset after the name in
/// the original stream. Pointers must point strictly backwards (RFC 1035 §4.1.4 "prior occurrence").
pub fn read_name(p: &[u8], mut pos: usize) -> Result<(Lbls, usize), String> {
    let mut labels = Vec::new();
    let mut after = None;
    let mut hops = 0;
    let mut total = 1usize;
    let mut limit = pos;
    loop {
        let b = *p.get(pos).ok_or("name runs off the packet")?;
        match b & 0xC0 {
            0x00 => {
                if b == 0 {
                    pos += 1;
                    break;
                }
                let l = b as usize;
                let s = p.get(pos + 1..pos + 1 + l).ok_or("label runs off the packet")?;
                total += l + 1;
                if total > 255 {
                    return Err("name too long".into());
                }
                labels.push(s.to_vec());
                pos += 1 + l;
            }
            0xC0 => {
                let b2 = *p.get(pos + 1).ok_or("pointer runs off the packet")?;
                let target = (((b & 0x3f) as usize) << 8) | b2 as usize;
                if after.is_none() {
                    after = Some(pos + 2);
                }
                if target >= limit {
                    return Err("pointer does not point backwards".into());
                }
                limit = target;
                pos = target;
                hops += 1;
                if hops > 200 {
                    return Err("too many pointer hops".into());
                }
            }
            _ => return Err("reserved label type".into()),
        }
    }
    Ok((labels, after.unwrap_or(pos)))
}

pub fn split(p: &[u8]) -> Result<RawMsg, String> {
    if p.len() < 12 {
        return Err("short header".into());
    }
    let u16at = |i: usize| -> u16 { u16::from_be_bytes([p[i], p[i + 1]]) };
    let counts = [u16at(4), u16at(6), u16at(8), u16at(10)];
    let mut pos = 12;
    let mut questions = Vec::new();
    for _ in 0..counts[0] {
        let (n, after) = read_name(p, pos)?;
        if after + 4 > p.len() {
            return Err("question runs off the packet".into());
        }
        questions.push((n, u16at(after), u16at(after + 2)));
        pos = after + 4;
    }
    let mut records = Vec::new();
    for (sec, cnt) in counts[1..].iter().enumerate() {
        for _ in 0..*cnt {
            let start = pos;
            let (owner, after) = read_name(p, pos)?;
            if after + 10 > p.len() {
                return Err("RR header runs off the packet".into());
            }
            let rtype = u16at(after);
            let class = u16at(after + 2);
            let ttl = u32::from_be_bytes([p[after + 4], p[after + 5], p[after + 6], p[after + 7]]);
            let rdlen = u16at(after + 8) as usize;
            let rs = after + 10;
            if rs + rdlen > p.len() {
                return Err("RDATA runs off the packet".into());
            }
            records.push(RawRr { section: sec as u8 + 1, start, owner, rtype, class, ttl, rdata_start: rs, rdata_end: rs + rdlen });
            pos = rs + rdlen;
        }
    }
    Ok(RawMsg { id: u16at(0), flags: u16at(2), counts, questions, records, end: pos })
}

/// RDATA with embedded compressed names expanded, for the RFC 1035 compressible types only;
/// every other type is returned as is. Err if the layout does not parse.
pub fn decompress_rdata(p: &[u8], rr: &RawRr) -> Result<Vec<u8>, String> {
    let raw = &p[rr.rdata_start..rr.rdata_end];
    let mut out = Enc::new();
    match rr.rtype {
        T_NS | T_CNAME | T_PTR => {
            let (n, after) = read_name(p, rr.rdata_start)?;
            if after != rr.rdata_end {
                return Err("name does not fill RDATA".into());
            }
            out.name(&n, false);
        }
        T_MX => {
            if raw.len() < 3 {
                return Err("short MX".into());
            }
            out.bytes(&raw[..2]);
            let (n, after) = read_name(p, rr.rdata_start + 2)?;
            if after != rr.rdata_end {
                return Err("name does not fill RDATA".into());
            }
            out.name(&n, false);
        }
        T_SOA => {
            let (m, a1) = read_name(p, rr.rdata_start)?;
            let (r, a2) = read_name(p, a1)?;
            if a2 + 20 != rr.rdata_end {
                return Err("SOA length".into());
            }
            out.name(&m, false);
            out.name(&r, false);
            out.bytes(&p[a2..a2 + 20]);
        }
        _ => return Ok(raw.to_vec()),
    }
    Ok(out.buf)
}

/// does the raw RDATA of a non-compressible type contain something that *could* be a compression
/// pointer inside an embedded name (we only need this for types with names: SRV, NAPTR, RRSIG,
/// NSEC, SVCB/HTTPS, TSIG, ANAME) — conservative syntactic walk of the name at `off`
pub fn name_has_pointer(p: &[u8], mut pos: usize, end: usize) -> bool {
    while pos < end {
        let b = p[pos];
        if b == 0 {
            return false;
        }
        if b & 0xC0 == 0xC0 {
            return true;
        }
        if b & 0xC0 != 0 {
            return false;
        }
        pos += 1 + b as usize;
    }
    false
}

pub fn mname(l: &Lbls) -> MName {
    MName::fq(l.clone())
}
