//! RFC 8945 reference: an own, type-agnostic DNS message splitter, the §4.3 digest input assembled
//! from the *received* octets, HMAC via `ring::hmac`, the §5.2 acceptance predicate
//! (`authorised_ref`), and an encoder for TSIG RRs so that requests can be re-signed / edited
//! field by field. Shares no code with hickory.

use ring::hmac;
use serde::{Deserialize, Serialize};

use super::canon;
use super::update_ref::{name_wire, Labels, C_ANY, T_TSIG};

#[derive(Clone, Copy, Debug, PartialEq, Eq, Hash, Serialize, Deserialize)]
pub enum Alg {
    Sha256,
    Sha384,
    Sha512,
}

impl Alg {
    pub fn name(self) -> Labels {
        vec![match self {
            Alg::Sha256 => b"hmac-sha256".to_vec(),
            Alg::Sha384 => b"hmac-sha384".to_vec(),
            Alg::Sha512 => b"hmac-sha512".to_vec(),
        }]
    }
    pub fn from_name(n: &[Vec<u8>]) -> Option<Alg> {
        [Alg::Sha256, Alg::Sha384, Alg::Sha512].into_iter().find(|a| canon::name_eq(&a.name(), n))
    }
    pub fn out_len(self) -> usize {
        match self {
            Alg::Sha256 => 32,
            Alg::Sha384 => 48,
            Alg::Sha512 => 64,
        }
    }
    fn ring(self) -> hmac::Algorithm {
        match self {
            Alg::Sha256 => hmac::HMAC_SHA256,
            Alg::Sha384 => hmac::HMAC_SHA384,
            Alg::Sha512 => hmac::HMAC_SHA512,
        }
    }
}

pub fn mac(alg: Alg, secret: &[u8], data: &[u8]) -> Vec<u8> {
    let k = hmac::Key::new(alg.ring(), secret);
    hmac::sign(&k, data).as_ref().to_vec()
}

#[derive(Clone, Debug, PartialEq, Eq, Serialize, Deserialize)]
pub struct Key {
    #[serde(with = "crate::core::hexvec")]
    pub name: Labels,
    #[serde(with = "crate::core::hexser")]
    pub secret: Vec<u8>,
    pub alg: Alg,
}

// ---------------------------------------------------------------------------------------------
// message splitter

#[derive(Clone, Debug)]
pub struct RrSpan {
    /// 0 = answer/prerequisite, 1 = authority/update, 2 = additional
    pub section: u8,
    pub start: usize,
    pub end: usize,
    pub name: Labels,
    pub rtype: u16,
    pub class: u16,
    pub ttl: u32,
    pub rdata_start: usize,
}

#[derive(Clone, Debug)]
pub struct Parsed {
    pub id: u16,
    pub flags: [u8; 2],
    pub counts: [u16; 4],
    pub questions: Vec<(Labels, u16, u16)>,
    pub rrs: Vec<RrSpan>,
    /// first octet after the last counted record
    pub end: usize,
}

impl Parsed {
    pub fn opcode(&self) -> u8 {
        (self.flags[0] >> 3) & 0x0f
    }
    pub fn is_response(&self) -> bool {
        self.flags[0] & 0x80 != 0
    }
}

/// read a possibly compressed name at `pos`; returns (labels, position after the name in the
/// original octet stream). Pointers may point anywhere inside the message (hop-limited).
pub fn read_name(b: &[u8], pos: usize) -> Result<(Labels, usize), String> {
    let mut labels = Vec::new();
    let mut p = pos;
    let mut after: Option<usize> = None;
    let mut hops = 0;
    let mut total = 1usize;
    loop {
        let l = *b.get(p).ok_or("name runs past the end")? as usize;
        match l & 0xC0 {
            0x00 => {
                if l == 0 {
                    p += 1;
                    break;
                }
                let lab = b.get(p + 1..p + 1 + l).ok_or("label runs past the end")?;
                total += l + 1;
                if total > 255 {
                    return Err("name longer than 255 octets".into());
                }
                labels.push(lab.to_vec());
                p += 1 + l;
            }
            0xC0 => {
                let lo = *b.get(p + 1).ok_or("pointer runs past the end")? as usize;
                if after.is_none() {
                    after = Some(p + 2);
                }
                hops += 1;
                if hops > 128 {
                    return Err("pointer loop".into());
                }
                p = ((l & 0x3f) << 8) | lo;
            }
            _ => return Err("reserved label type".into()),
        }
    }
    Ok((labels, after.unwrap_or(p)))
}

fn u16_at(b: &[u8], p: usize) -> Result<u16, String> {
    let s = b.get(p..p + 2).ok_or("short read")?;
    Ok(u16::from_be_bytes([s[0], s[1]]))
}

fn u32_at(b: &[u8], p: usize) -> Result<u32, String> {
    let s = b.get(p..p + 4).ok_or("short read")?;
    Ok(u32::from_be_bytes([s[0], s[1], s[2], s[3]]))
}

pub fn parse(b: &[u8]) -> Result<Parsed, String> {
    if b.len() < 12 {
        return Err("shorter than a header".into());
    }
    let id = u16_at(b, 0)?;
    let flags = [b[2], b[3]];
    let counts = [u16_at(b, 4)?, u16_at(b, 6)?, u16_at(b, 8)?, u16_at(b, 10)?];
    let mut p = 12;
    let mut questions = Vec::new();
    for _ in 0..counts[0] {
        let (n, np) = read_name(b, p)?;
        let t = u16_at(b, np)?;
        let c = u16_at(b, np + 2)?;
        questions.push((n, t, c));
        p = np + 4;
    }
    let mut rrs = Vec::new();
    for (sec, cnt) in counts[1..].iter().enumerate() {
        for _ in 0..*cnt {
            let start = p;
            let (name, np) = read_name(b, p)?;
            let rtype = u16_at(b, np)?;
            let class = u16_at(b, np + 2)?;
            let ttl = u32_at(b, np + 4)?;
            let rdlen = u16_at(b, np + 8)? as usize;
            let rdata_start = np + 10;
            let end = rdata_start + rdlen;
            if end > b.len() {
                return Err("RDATA runs past the end".into());
            }
            rrs.push(RrSpan {
                section: sec as u8,
                start,
                end,
                name,
                rtype,
                class,
                ttl,
                rdata_start,
            });
            p = end;
        }
    }
    Ok(Parsed {
        id,
        flags,
        counts,
        questions,
        rrs,
        end: p,
    })
}

// ---------------------------------------------------------------------------------------------
// TSIG RR

#[derive(Clone, Debug, PartialEq, Eq, Serialize, Deserialize)]
pub struct Tsig {
    #[serde(with = "crate::core::hexvec")]
    pub key_name: Labels,
    pub class: u16,
    pub ttl: u32,
    #[serde(with = "crate::core::hexvec")]
    pub alg_name: Labels,
    pub time: u64,
    pub fudge: u16,
    #[serde(with = "crate::core::hexser")]
    pub mac: Vec<u8>,
    pub orig_id: u16,
    pub error: u16,
    #[serde(with = "crate::core::hexser")]
    pub other: Vec<u8>,
}

impl Tsig {
    /// RFC 8945 §4.2 wire form of the whole RR, names uncompressed
    pub fn wire(&self) -> Vec<u8> {
        let mut rd = name_wire(&self.alg_name);
        rd.extend_from_slice(&((self.time >> 32) as u16).to_be_bytes());
        rd.extend_from_slice(&(self.time as u32).to_be_bytes());
        rd.extend_from_slice(&self.fudge.to_be_bytes());
        rd.extend_from_slice(&(self.mac.len() as u16).to_be_bytes());
        rd.extend_from_slice(&self.mac);
        rd.extend_from_slice(&self.orig_id.to_be_bytes());
        rd.extend_from_slice(&self.error.to_be_bytes());
        rd.extend_from_slice(&(self.other.len() as u16).to_be_bytes());
        rd.extend_from_slice(&self.other);
        let mut v = name_wire(&self.key_name);
        v.extend_from_slice(&T_TSIG.to_be_bytes());
        v.extend_from_slice(&self.class.to_be_bytes());
        v.extend_from_slice(&self.ttl.to_be_bytes());
        v.extend_from_slice(&(rd.len() as u16).to_be_bytes());
        v.extend(rd);
        v
    }

    /// §4.3.3 TSIG variables: NAME (canonical wire format), CLASS (MUST be ANY), TTL (MUST be 0),
    /// Algorithm Name (canonical wire format), Time Signed, Fudge, Error, Other Len, Other Data
    pub fn variables(&self) -> Vec<u8> {
        let mut v = name_wire(&canon::lower(&self.key_name));
        v.extend_from_slice(&C_ANY.to_be_bytes());
        v.extend_from_slice(&0u32.to_be_bytes());
        v.extend(name_wire(&canon::lower(&self.alg_name)));
        v.extend_from_slice(&((self.time >> 32) as u16).to_be_bytes());
        v.extend_from_slice(&(self.time as u32).to_be_bytes());
        v.extend_from_slice(&self.fudge.to_be_bytes());
        v.extend_from_slice(&self.error.to_be_bytes());
        v.extend_from_slice(&(self.other.len() as u16).to_be_bytes());
        v.extend_from_slice(&self.other);
        v
    }
}

pub fn parse_tsig(b: &[u8], rr: &RrSpan) -> Result<Tsig, String> {
    let (alg_name, mut p) = read_name(b, rr.rdata_start)?;
    if p > rr.end {
        return Err("algorithm name runs past RDATA".into());
    }
    let need = |p: usize, n: usize| if p + n <= rr.end { Ok(()) } else { Err("TSIG RDATA too short".to_string()) };
    need(p, 10)?;
    let time = ((u16_at(b, p)? as u64) << 32) | u32_at(b, p + 2)? as u64;
    let fudge = u16_at(b, p + 6)?;
    let mac_len = u16_at(b, p + 8)? as usize;
    p += 10;
    need(p, mac_len + 6)?;
    let mac = b[p..p + mac_len].to_vec();
    p += mac_len;
    let orig_id = u16_at(b, p)?;
    let error = u16_at(b, p + 2)?;
    let other_len = u16_at(b, p + 4)? as usize;
    p += 6;
    if p + other_len != rr.end {
        return Err("TSIG other-len does not match RDLENGTH".into());
    }
    let other = b[p..p + other_len].to_vec();
    Ok(Tsig {
        key_name: rr.name.clone(),
        class: rr.class,
        ttl: rr.ttl,
        alg_name,
        time,
        fudge,
        mac,
        orig_id,
        error,
        other,
    })
}

/// §4.3.2: the message as received, TSIG RR removed, ARCOUNT decremented, original ID substituted
pub fn message_without_tsig(b: &[u8], tsig_start: usize, orig_id: u16) -> Vec<u8> {
    let mut m = b[..tsig_start].to_vec();
    m[0..2].copy_from_slice(&orig_id.to_be_bytes());
    let ar = u16::from_be_bytes([m[10], m[11]]).wrapping_sub(1);
    m[10..12].copy_from_slice(&ar.to_be_bytes());
    m
}

/// digest input for a request (§4.3): message ‖ TSIG variables
pub fn request_digest(b: &[u8], tsig_start: usize, t: &Tsig) -> Vec<u8> {
    let mut d = message_without_tsig(b, tsig_start, t.orig_id);
    d.extend(t.variables());
    d
}

/// digest input for a (first) response (§4.3.1): request MAC (length-prefixed) ‖ message ‖ variables
pub fn response_digest(request_mac: &[u8], b: &[u8], tsig_start: usize, t: &Tsig) -> Vec<u8> {
    let mut d = (request_mac.len() as u16).to_be_bytes().to_vec();
    d.extend_from_slice(request_mac);
    d.extend(request_digest(b, tsig_start, t));
    d
}

#[derive(Clone, Debug, PartialEq, Eq)]
pub enum AuthRef {
    /// the request is authorised: key known, MAC valid at full length, time within fudge
    Authorised,
    Unparseable(String),
    NoTsig,
    /// more than one TSIG RR, or the TSIG RR is not the last record of the additional section
    Misplaced,
    BadTsigRdata(String),
    UnknownKey,
    BadMac,
    TruncatedMac,
    BadTime,
}

#[derive(Clone, Debug)]
pub struct AuthDetail {
    pub verdict: AuthRef,
    /// MAC valid at full length under some configured key with that name+algorithm (time ignored)
    pub mac_ok: bool,
    pub tsig: Option<Tsig>,
    pub parsed: Option<Parsed>,
    /// octets follow the last counted record
    pub trailing: usize,
}

/// RFC 8945 §5.2 as the property states it: the request ends with a TSIG RR naming a configured
/// key (name and algorithm) whose full-length MAC verifies over the received octets and whose
/// Time Signed is within Fudge of `now`.
pub fn authorised_ref(b: &[u8], now: u64, keys: &[Key]) -> AuthDetail {
    let mut d = AuthDetail {
        verdict: AuthRef::NoTsig,
        mac_ok: false,
        tsig: None,
        parsed: None,
        trailing: 0,
    };
    let parsed = match parse(b) {
        Ok(p) => p,
        Err(e) => {
            d.verdict = AuthRef::Unparseable(e);
            return d;
        }
    };
    d.trailing = b.len() - parsed.end;
    let tsig_positions: Vec<usize> = parsed.rrs.iter().enumerate().filter(|(_, r)| r.rtype == T_TSIG).map(|(i, _)| i).collect();
    d.parsed = Some(parsed.clone());
    if tsig_positions.is_empty() {
        return d;
    }
    let last = parsed.rrs.len() - 1;
    if tsig_positions.len() != 1 || tsig_positions[0] != last || parsed.rrs[last].section != 2 {
        d.verdict = AuthRef::Misplaced;
        return d;
    }
    let rr = &parsed.rrs[last];
    let t = match parse_tsig(b, rr) {
        Ok(t) => t,
        Err(e) => {
            d.verdict = AuthRef::BadTsigRdata(e);
            return d;
        }
    };
    d.tsig = Some(t.clone());
    let candidates: Vec<&Key> = keys
        .iter()
        .filter(|k| canon::name_eq(&k.name, &t.key_name) && canon::name_eq(&k.alg.name(), &t.alg_name))
        .collect();
    if candidates.is_empty() {
        d.verdict = AuthRef::UnknownKey;
        return d;
    }
    let digest = request_digest(b, rr.start, &t);
    let mut full = false;
    let mut prefix = false;
    for k in candidates {
        let m = mac(k.alg, &k.secret, &digest);
        if m == t.mac {
            full = true;
        } else if !t.mac.is_empty() && t.mac.len() < m.len() && m[..t.mac.len()] == t.mac[..] {
            prefix = true;
        }
    }
    if !full {
        d.verdict = if prefix { AuthRef::TruncatedMac } else { AuthRef::BadMac };
        return d;
    }
    d.mac_ok = true;
    // §5.2.3: |now - Time Signed| <= Fudge
    let diff = if now >= t.time { now - t.time } else { t.time - now };
    if diff > t.fudge as u64 {
        d.verdict = AuthRef::BadTime;
        return d;
    }
    d.verdict = AuthRef::Authorised;
    d
}

/// append a TSIG RR signed with `key` to `unsigned` (a complete message whose ARCOUNT does not
/// yet count the TSIG RR); returns the signed message and the MAC
pub fn sign_request(unsigned: &[u8], key: &Key, time: u64, fudge: u16) -> (Vec<u8>, Vec<u8>) {
    let id = u16::from_be_bytes([unsigned[0], unsigned[1]]);
    let mut t = Tsig {
        key_name: key.name.clone(),
        class: C_ANY,
        ttl: 0,
        alg_name: key.alg.name(),
        time,
        fudge,
        mac: vec![],
        orig_id: id,
        error: 0,
        other: vec![],
    };
    let mut digest = unsigned.to_vec();
    digest.extend(t.variables());
    t.mac = mac(key.alg, &key.secret, &digest);
    (attach(unsigned, &t), t.mac)
}

/// append the TSIG RR as is and count it
pub fn attach(unsigned: &[u8], t: &Tsig) -> Vec<u8> {
    let mut out = unsigned.to_vec();
    let ar = u16::from_be_bytes([out[10], out[11]]).wrapping_add(1);
    out[10..12].copy_from_slice(&ar.to_be_bytes());
    out.extend(t.wire());
    out
}

/// recompute the MAC of `t` over `unsigned` with `key` (all other fields as they are)
pub fn resign(unsigned: &[u8], t: &mut Tsig, key: &Key) {
    let mut digest = unsigned.to_vec();
    digest[0..2].copy_from_slice(&t.orig_id.to_be_bytes());
    digest.extend(t.variables());
    t.mac = mac(key.alg, &key.secret, &digest);
}

/// split a signed message into (message without TSIG, ARCOUNT decremented, header ID as received)
/// and the TSIG; only for messages whose last additional record is the TSIG RR
pub fn split_signed(b: &[u8]) -> Option<(Vec<u8>, Tsig)> {
    let p = parse(b).ok()?;
    let rr = p.rrs.last()?;
    if rr.rtype != T_TSIG || rr.section != 2 {
        return None;
    }
    let t = parse_tsig(b, rr).ok()?;
    let mut m = b[..rr.start].to_vec();
    let ar = u16::from_be_bytes([m[10], m[11]]).wrapping_sub(1);
    m[10..12].copy_from_slice(&ar.to_be_bytes());
    Some((m, t))
}
