//! A small zone model with the *truth* about queries, the genuine NSEC chain and the genuine
//! NSEC3 ring — written from the RFC text, sharing no code with hickory.
//!
//! * domain tree, empty non-terminals, existence: RFC 4592 §2.2 ("a domain name exists if it or
//!   any of its descendants owns at least one RR"), closest encloser / source of synthesis:
//!   RFC 4592 §3.3.1, algorithm: RFC 1034 §4.3.2 as revised by RFC 4592 §3.2.
//! * zone cuts: RFC 1034 §4.2.1 (NS below the apex = delegation; everything beneath is not
//!   authoritative, "glue" / occluded), DS lives on the parent side of the cut: RFC 4035 §2.4,
//!   §3.1.4.1.
//! * NSEC chain: RFC 4034 §4.1 / §6.1 (canonical order, last wraps to the apex), RFC 4035 §2.3
//!   (one NSEC per owner name that has authoritative data or a delegation point NS RRset; never
//!   for names that only hold glue; delegation bitmap = NS, DS if present, RRSIG, NSEC).
//! * NSEC3 ring: RFC 5155 §5 (iterated salted SHA-1 over the canonical wire name), §7.1 (owners:
//!   every authoritative name, every delegation point — unless Opt-Out and insecure —, every
//!   empty non-terminal that leads to an included name; bitmaps; hash order, last wraps).
//!
//! Names are absolute label lists (leftmost first, no root label), lower case.

use std::cmp::Ordering;
use std::collections::BTreeSet;

use super::canon;

pub type Labels = Vec<Vec<u8>>;

pub mod ty {
    pub const A: u16 = 1;
    pub const NS: u16 = 2;
    pub const CNAME: u16 = 5;
    pub const SOA: u16 = 6;
    pub const MX: u16 = 15;
    pub const TXT: u16 = 16;
    pub const AAAA: u16 = 28;
    pub const DS: u16 = 43;
    pub const RRSIG: u16 = 46;
    pub const NSEC: u16 = 47;
    pub const DNSKEY: u16 = 48;
    pub const NSEC3: u16 = 50;
    pub const NSEC3PARAM: u16 = 51;

    pub fn mnemonic(t: u16) -> String {
        match t {
            A => "A".into(),
            NS => "NS".into(),
            CNAME => "CNAME".into(),
            SOA => "SOA".into(),
            MX => "MX".into(),
            TXT => "TXT".into(),
            AAAA => "AAAA".into(),
            DS => "DS".into(),
            RRSIG => "RRSIG".into(),
            NSEC => "NSEC".into(),
            DNSKEY => "DNSKEY".into(),
            NSEC3 => "NSEC3".into(),
            NSEC3PARAM => "NSEC3PARAM".into(),
            x => format!("TYPE{x}"),
        }
    }

    pub fn parse(s: &str) -> Option<u16> {
        Some(match s {
            "A" => A,
            "NS" => NS,
            "CNAME" => CNAME,
            "SOA" => SOA,
            "MX" => MX,
            "TXT" => TXT,
            "AAAA" => AAAA,
            "DS" => DS,
            "DNSKEY" => DNSKEY,
            _ => return None,
        })
    }
}

pub fn parse_name(s: &str) -> Labels {
    s.split('.')
        .filter(|l| !l.is_empty())
        .map(|l| l.as_bytes().to_ascii_lowercase())
        .collect()
}

pub fn show(n: &[Vec<u8>]) -> String {
    canon::show(n)
}

/// `suffix(n, k)`: the rightmost k labels of n
pub fn suffix(n: &[Vec<u8>], k: usize) -> Labels {
    n[n.len() - k..].to_vec()
}

pub fn is_ancestor_or_self(anc: &[Vec<u8>], n: &[Vec<u8>]) -> bool {
    canon::is_suffix(anc, n)
}

pub fn is_proper_ancestor(anc: &[Vec<u8>], n: &[Vec<u8>]) -> bool {
    anc.len() < n.len() && canon::is_suffix(anc, n)
}

pub fn wildcard_of(encloser: &[Vec<u8>]) -> Labels {
    let mut w = vec![b"*".to_vec()];
    w.extend(encloser.iter().cloned());
    w
}

pub fn is_wildcard_name(n: &[Vec<u8>]) -> bool {
    n.first().is_some_and(|l| l.as_slice() == b"*")
}

#[derive(Clone, Debug, PartialEq, Eq)]
pub struct Zone {
    pub apex: Labels,
    /// absolute owner name -> RR types present, canonical order; the apex is always present and
    /// always carries SOA, NS and DNSKEY
    pub nodes: Vec<(Labels, BTreeSet<u16>)>,
}

#[derive(Clone, Debug, PartialEq, Eq)]
pub enum Pos {
    /// not at or below the apex
    Out,
    /// in the authoritative part of the zone
    Auth,
    /// the name of a delegation point (NS below the apex); carries the cut
    AtCut(Labels),
    /// strictly below a delegation point
    BelowCut(Labels),
}

#[derive(Clone, Copy, Debug, PartialEq, Eq)]
pub enum Exist {
    /// owns authoritative RRsets (or is a delegation point / the apex)
    Owner,
    /// owns nothing but has a descendant that does (RFC 4592 §2.2.2)
    Ent,
    No,
}

/// What the zone says about (qname, qtype) — RFC 1034 §4.3.2 with RFC 4592 and RFC 4035 §3.1.4.
#[derive(Clone, Debug, PartialEq, Eq)]
pub enum Truth {
    OutOfZone,
    /// at (qtype != DS) or below a zone cut: the zone is not authoritative, the answer is a
    /// referral; no negative statement about the name can be derived from this zone
    Referral { cut: Labels, at_cut: bool },
    /// the name exists and owns the type (or a CNAME)
    Positive,
    /// the name exists (as owner, delegation point queried for DS, or empty non-terminal)
    /// without the type and without CNAME
    NoData { ent: bool, at_cut: bool },
    /// the name does not exist and the source of synthesis `*.<closest encloser>` does not
    /// exist either
    NxDomain { ce: Labels },
    /// the name does not exist, `*.<ce>` exists and owns the type (or a CNAME)
    WildAnswer { ce: Labels, via_cname: bool },
    /// the name does not exist, `*.<ce>` exists (possibly as an empty non-terminal) without the
    /// type and without CNAME
    WildNoData { ce: Labels, wildcard_is_ent: bool },
}

impl std::fmt::Display for Truth {
    fn fmt(&self, f: &mut std::fmt::Formatter<'_>) -> std::fmt::Result {
        match self {
            Truth::Referral { cut, .. } => write!(f, "{} (cut {})", self.kind(), show(cut)),
            Truth::NxDomain { ce } | Truth::WildAnswer { ce, .. } | Truth::WildNoData { ce, .. } => {
                write!(f, "{} (closest encloser {})", self.kind(), show(ce))
            }
            _ => write!(f, "{}", self.kind()),
        }
    }
}

impl Truth {
    pub fn kind(&self) -> &'static str {
        match self {
            Truth::OutOfZone => "out-of-zone",
            Truth::Referral { at_cut: true, .. } => "at-cut",
            Truth::Referral { at_cut: false, .. } => "below-cut",
            Truth::Positive => "positive",
            Truth::NoData { ent: true, .. } => "nodata-ent",
            Truth::NoData { at_cut: true, .. } => "nodata-ds-at-cut",
            Truth::NoData { .. } => "nodata",
            Truth::NxDomain { .. } => "nxdomain",
            Truth::WildAnswer { .. } => "wild-answer",
            Truth::WildNoData { wildcard_is_ent: true, .. } => "wild-nodata-ent-wildcard",
            Truth::WildNoData { .. } => "wild-nodata",
        }
    }

    pub fn is_negative_or_wild(&self) -> bool {
        matches!(
            self,
            Truth::NoData { .. } | Truth::NxDomain { .. } | Truth::WildAnswer { .. } | Truth::WildNoData { .. }
        )
    }
}

/// The claim a response makes (what a validator is asked to accept).
#[derive(Clone, Copy, Debug, PartialEq, Eq, Hash, PartialOrd, Ord)]
pub enum Claim {
    /// RCODE=NXDOMAIN, empty answer: "the name does not exist (not even as an empty
    /// non-terminal) and no wildcard matches"
    NxDomain,
    /// RCODE=NOERROR, empty answer: "the name, or the wildcard that matches it, exists without
    /// this type and without CNAME"
    NoData,
    /// RCODE=NOERROR, answer RRset at qname with an RRSIG whose Labels field is `labels`
    /// (< number of labels of qname): "synthesised from `*.<rightmost labels of qname>`, no
    /// closer match exists"
    WildAnswer { labels: u8 },
    /// RCODE=NXDOMAIN together with a wildcard-expanded (non-CNAME) answer: self-contradictory
    NxWithWildAnswer { labels: u8 },
}

impl Claim {
    pub fn kind(&self) -> &'static str {
        match self {
            Claim::NxDomain => "nxdomain",
            Claim::NoData => "nodata",
            Claim::WildAnswer { .. } => "wild-answer",
            Claim::NxWithWildAnswer { .. } => "nx+wild-answer",
        }
    }
}

/// a wildcard answer an attacker can actually present for (qname, qtype): the RRset (of
/// `answer_type`) of the genuine wildcard owner `*.<rightmost labels of qname>` with its genuine
/// RRSIG (Labels = `labels`)
#[derive(Clone, Debug, PartialEq, Eq)]
pub struct WildCandidate {
    pub labels: u8,
    pub answer_type: u16,
}

impl Zone {
    /// `"<apex> | name:T+T name:T ..."`; names are relative to the apex, `@` is the apex itself
    /// (extra types besides SOA/NS/DNSKEY).
    pub fn parse(text: &str) -> Result<Zone, String> {
        let (apex_s, rest) = text.split_once('|').ok_or("missing '|'")?;
        let apex = parse_name(apex_s.trim());
        if apex.is_empty() {
            return Err("empty apex".into());
        }
        let mut nodes: Vec<(Labels, BTreeSet<u16>)> = Vec::new();
        let mut apex_types: BTreeSet<u16> = [ty::SOA, ty::NS, ty::DNSKEY].into_iter().collect();
        for item in rest.split_whitespace() {
            let (n, t) = item.split_once(':').ok_or_else(|| format!("bad item {item}"))?;
            let mut types = BTreeSet::new();
            for m in t.split('+') {
                types.insert(ty::parse(m).ok_or_else(|| format!("bad type {m}"))?);
            }
            if n == "@" {
                if types.contains(&ty::CNAME) || types.contains(&ty::DS) {
                    return Err("CNAME/DS at apex".into());
                }
                apex_types.extend(types);
                continue;
            }
            let mut abs = parse_name(n);
            if abs.is_empty() {
                return Err("empty name".into());
            }
            abs.extend(apex.iter().cloned());
            // RFC 1034 §3.6.2: CNAME excludes other data
            if types.contains(&ty::CNAME) && types.len() > 1 {
                return Err("CNAME with other data".into());
            }
            // RFC 4035 §2.4: DS only at a delegation point
            if types.contains(&ty::DS) && !types.contains(&ty::NS) {
                return Err("DS without NS".into());
            }
            // model restriction: a delegation point owns NS (+DS) only; no NS at `*` owners
            if types.contains(&ty::NS) {
                if types.iter().any(|t| *t != ty::NS && *t != ty::DS) {
                    return Err("delegation with other data".into());
                }
                if is_wildcard_name(&abs) {
                    return Err("NS at wildcard".into());
                }
            }
            if types.contains(&ty::SOA) || types.contains(&ty::DNSKEY) {
                return Err("SOA/DNSKEY below apex".into());
            }
            if nodes.iter().any(|(o, _)| canon::name_eq(o, &abs)) {
                return Err(format!("duplicate node {n}"));
            }
            nodes.push((abs, types));
        }
        nodes.push((apex.clone(), apex_types));
        nodes.sort_by(|a, b| canon::name_cmp(&a.0, &b.0));
        Ok(Zone { apex, nodes })
    }

    pub fn render(&self) -> String {
        let mut s = format!("{} |", show(&self.apex));
        for (o, t) in &self.nodes {
            let rel = &o[..o.len() - self.apex.len()];
            let tl: Vec<u16> = if rel.is_empty() {
                t.iter()
                    .copied()
                    .filter(|t| ![ty::SOA, ty::NS, ty::DNSKEY].contains(t))
                    .collect()
            } else {
                t.iter().copied().collect()
            };
            if tl.is_empty() {
                continue;
            }
            let name = if rel.is_empty() {
                "@".to_string()
            } else {
                let s = show(rel);
                s.trim_end_matches('.').to_string()
            };
            s.push_str(&format!(
                " {}:{}",
                name,
                tl.iter().map(|t| ty::mnemonic(*t)).collect::<Vec<_>>().join("+")
            ));
        }
        s
    }

    pub fn node(&self, n: &[Vec<u8>]) -> Option<&BTreeSet<u16>> {
        self.nodes.iter().find(|(o, _)| canon::name_eq(o, n)).map(|(_, t)| t)
    }

    /// RFC 1034 §4.2.1: the topmost NS RRset below the apex on the path to `q` is the zone cut.
    pub fn pos(&self, q: &[Vec<u8>]) -> Pos {
        if !canon::is_suffix(&self.apex, q) {
            return Pos::Out;
        }
        for len in self.apex.len() + 1..=q.len() {
            let anc = &q[q.len() - len..];
            if self.node(anc).is_some_and(|t| t.contains(&ty::NS)) {
                return if len == q.len() {
                    Pos::AtCut(anc.to_vec())
                } else {
                    Pos::BelowCut(anc.to_vec())
                };
            }
        }
        Pos::Auth
    }

    pub fn cuts(&self) -> Vec<Labels> {
        self.nodes
            .iter()
            .filter(|(o, _)| matches!(self.pos(o), Pos::AtCut(_)))
            .map(|(o, _)| o.clone())
            .collect()
    }

    /// the names of the zone's domain tree that own something visible from this zone:
    /// authoritative owners, delegation points and the apex (not: glue / occluded names)
    pub fn tree_owners(&self) -> Vec<&Labels> {
        self.nodes
            .iter()
            .filter(|(o, t)| !t.is_empty() && matches!(self.pos(o), Pos::Auth | Pos::AtCut(_)))
            .map(|(o, _)| o)
            .collect()
    }

    /// RFC 4592 §2.2.3
    pub fn exist(&self, q: &[Vec<u8>]) -> Exist {
        let owners = self.tree_owners();
        if owners.iter().any(|o| canon::name_eq(o, q)) {
            Exist::Owner
        } else if owners.iter().any(|o| is_proper_ancestor(q, o)) {
            Exist::Ent
        } else {
            Exist::No
        }
    }

    /// types visible at an existing tree owner: at a delegation point only NS and DS
    pub fn types_at(&self, q: &[Vec<u8>]) -> BTreeSet<u16> {
        let Some(t) = self.node(q) else { return BTreeSet::new() };
        match self.pos(q) {
            Pos::Auth => t.clone(),
            Pos::AtCut(_) => t.iter().copied().filter(|t| *t == ty::NS || *t == ty::DS).collect(),
            _ => BTreeSet::new(),
        }
    }

    /// RFC 4592 §3.3.1: the longest existing proper ancestor of a non-existent name
    pub fn closest_encloser(&self, q: &[Vec<u8>]) -> Labels {
        for len in (self.apex.len()..q.len()).rev() {
            let anc = &q[q.len() - len..];
            if self.exist(anc) != Exist::No {
                return anc.to_vec();
            }
        }
        self.apex.clone()
    }

    pub fn truth(&self, q: &[Vec<u8>], qtype: u16) -> Truth {
        match self.pos(q) {
            Pos::Out => return Truth::OutOfZone,
            Pos::BelowCut(cut) => return Truth::Referral { cut, at_cut: false },
            Pos::AtCut(cut) => {
                // RFC 4035 §3.1.4.1: DS at a delegation point is answered from the parent side
                if qtype != ty::DS {
                    return Truth::Referral { cut, at_cut: true };
                }
                return if self.types_at(q).contains(&ty::DS) {
                    Truth::Positive
                } else {
                    Truth::NoData { ent: false, at_cut: true }
                };
            }
            Pos::Auth => {}
        }
        match self.exist(q) {
            Exist::Owner => {
                let t = self.types_at(q);
                if t.contains(&qtype) || t.contains(&ty::CNAME) {
                    Truth::Positive
                } else {
                    Truth::NoData { ent: false, at_cut: false }
                }
            }
            Exist::Ent => Truth::NoData { ent: true, at_cut: false },
            Exist::No => {
                let ce = self.closest_encloser(q);
                let w = wildcard_of(&ce);
                match self.exist(&w) {
                    Exist::No => Truth::NxDomain { ce },
                    Exist::Ent => Truth::WildNoData { ce, wildcard_is_ent: true },
                    Exist::Owner => {
                        let t = self.types_at(&w);
                        if t.contains(&qtype) {
                            Truth::WildAnswer { ce, via_cname: false }
                        } else if t.contains(&ty::CNAME) {
                            Truth::WildAnswer { ce, via_cname: true }
                        } else {
                            Truth::WildNoData { ce, wildcard_is_ent: false }
                        }
                    }
                }
            }
        }
    }

    /// Is the claim true in this zone?
    pub fn claim_true(&self, q: &[Vec<u8>], qtype: u16, claim: Claim) -> bool {
        let truth = self.truth(q, qtype);
        match claim {
            Claim::NxDomain => matches!(truth, Truth::NxDomain { .. }),
            Claim::NoData => matches!(truth, Truth::NoData { .. } | Truth::WildNoData { .. }),
            Claim::WildAnswer { labels } => {
                matches!(truth, Truth::WildAnswer { ce, .. } if ce.len() == labels as usize)
            }
            Claim::NxWithWildAnswer { .. } => false,
        }
    }

    /// Wildcard answers that can be presented for (q, qtype) with a *genuine* RRSIG: a signature
    /// verifies only if `*.<rightmost Labels labels of q>` really owns the covered RRset
    /// (RFC 4035 §5.3.2), so the candidates are the zone's authoritative wildcard owners above q.
    /// A query for the wildcard owner name itself is an ordinary direct answer, not an expansion.
    pub fn wild_candidates(&self, q: &[Vec<u8>], qtype: u16) -> Vec<WildCandidate> {
        let mut out = Vec::new();
        if !canon::is_suffix(&self.apex, q) {
            return out;
        }
        for len in self.apex.len()..q.len() {
            let w = wildcard_of(&q[q.len() - len..]);
            if canon::name_eq(&w, q) {
                continue;
            }
            if self.pos(&w) != Pos::Auth {
                continue;
            }
            let t = self.types_at(&w);
            if t.contains(&qtype) && qtype != ty::NS {
                out.push(WildCandidate { labels: len as u8, answer_type: qtype });
            } else if t.contains(&ty::CNAME) {
                out.push(WildCandidate { labels: len as u8, answer_type: ty::CNAME });
            }
        }
        out
    }
}

// ---------------------------------------------------------------------------------------------
// NSEC

#[derive(Clone, Debug, PartialEq, Eq)]
pub struct NsecRec {
    pub owner: Labels,
    pub next: Labels,
    pub types: BTreeSet<u16>,
}

/// RFC 4035 §2.3 / RFC 4034 §4
pub fn nsec_chain(z: &Zone) -> Vec<NsecRec> {
    let mut owners: Vec<(Labels, BTreeSet<u16>)> = Vec::new();
    for (o, t) in &z.nodes {
        if t.is_empty() {
            continue;
        }
        let types = match z.pos(o) {
            Pos::Auth => t.clone(),
            // delegation point: the parent is authoritative for NS-presence, DS and the NSEC
            Pos::AtCut(_) => t.iter().copied().filter(|t| *t == ty::NS || *t == ty::DS).collect(),
            // glue / occluded data: "MUST NOT" have an NSEC (RFC 4035 §2.3)
            Pos::BelowCut(_) | Pos::Out => continue,
        };
        let mut types = types;
        types.insert(ty::RRSIG);
        types.insert(ty::NSEC);
        owners.push((o.clone(), types));
    }
    owners.sort_by(|a, b| canon::name_cmp(&a.0, &b.0));
    debug_assert!(canon::name_eq(&owners[0].0, &z.apex));
    let n = owners.len();
    (0..n)
        .map(|i| NsecRec {
            owner: owners[i].0.clone(),
            next: owners[(i + 1) % n].0.clone(),
            types: owners[i].1.clone(),
        })
        .collect()
}

// ---------------------------------------------------------------------------------------------
// NSEC3

#[derive(Clone, Debug, PartialEq, Eq, Hash, PartialOrd, Ord)]
pub struct Nsec3Params {
    pub salt: Vec<u8>,
    pub iterations: u16,
    pub opt_out: bool,
}

#[derive(Clone, Debug, PartialEq, Eq)]
pub struct Nsec3Rec {
    /// the original owner name (not part of the record; for rendering and triage)
    pub orig: Labels,
    pub hash: Vec<u8>,
    pub next_hash: Vec<u8>,
    pub types: BTreeSet<u16>,
    pub opt_out: bool,
}

/// RFC 4034 §6.2 canonical wire form of a name (lower case, uncompressed)
pub fn wire_name(n: &[Vec<u8>]) -> Vec<u8> {
    let mut w = Vec::new();
    for l in n {
        w.push(l.len() as u8);
        w.extend(l.iter().map(|b| canon::fold(*b)));
    }
    w.push(0);
    w
}

/// RFC 5155 §5: IH(salt, x, 0) = H(x || salt); IH(salt, x, k) = H(IH(salt, x, k-1) || salt)
pub fn nsec3_hash(n: &[Vec<u8>], salt: &[u8], iterations: u16) -> Vec<u8> {
    use ring::digest::{digest, SHA1_FOR_LEGACY_USE_ONLY};
    let mut buf = wire_name(n);
    buf.extend_from_slice(salt);
    let mut h = digest(&SHA1_FOR_LEGACY_USE_ONLY, &buf).as_ref().to_vec();
    for _ in 0..iterations {
        let mut b = h.clone();
        b.extend_from_slice(salt);
        h = digest(&SHA1_FOR_LEGACY_USE_ONLY, &b).as_ref().to_vec();
    }
    h
}

/// The original owner names that get an NSEC3 RR, with their bitmaps (RFC 5155 §7.1).
pub fn nsec3_owners(z: &Zone, p: &Nsec3Params) -> Vec<(Labels, BTreeSet<u16>)> {
    let mut owners: Vec<(Labels, BTreeSet<u16>)> = Vec::new();
    for (o, t) in &z.nodes {
        if t.is_empty() {
            continue;
        }
        match z.pos(o) {
            Pos::Auth => {
                let mut types = t.clone();
                if canon::name_eq(o, &z.apex) {
                    types.insert(ty::NSEC3PARAM);
                }
                types.insert(ty::RRSIG);
                owners.push((o.clone(), types));
            }
            Pos::AtCut(_) => {
                let secure = t.contains(&ty::DS);
                if !secure && p.opt_out {
                    // §7.1: "If Opt-Out is being used, owner names of unsigned delegations MAY
                    // be excluded."
                    continue;
                }
                let mut types: BTreeSet<u16> = [ty::NS].into_iter().collect();
                if secure {
                    // DS is authoritative data of the parent and is signed
                    types.insert(ty::DS);
                    types.insert(ty::RRSIG);
                }
                owners.push((o.clone(), types));
            }
            Pos::BelowCut(_) | Pos::Out => {}
        }
    }
    // §7.1: "Each empty non-terminal MUST have a corresponding NSEC3 RR, unless the empty
    // non-terminal is only derived from an insecure delegation covered by an Opt-Out NSEC3 RR."
    let mut ents: Vec<Labels> = Vec::new();
    for (o, _) in &owners {
        for len in z.apex.len() + 1..o.len() {
            let anc = suffix(o, len);
            if !owners.iter().any(|(x, _)| canon::name_eq(x, &anc)) && !ents.iter().any(|x| canon::name_eq(x, &anc)) {
                ents.push(anc);
            }
        }
    }
    for e in ents {
        owners.push((e, BTreeSet::new()));
    }
    owners
}

/// RFC 5155 §7.1: sort by hash, link each to the next, last wraps to the first.
pub fn nsec3_ring(z: &Zone, p: &Nsec3Params) -> Vec<Nsec3Rec> {
    let mut recs: Vec<(Vec<u8>, Labels, BTreeSet<u16>)> = nsec3_owners(z, p)
        .into_iter()
        .map(|(o, t)| (nsec3_hash(&o, &p.salt, p.iterations), o, t))
        .collect();
    recs.sort_by(|a, b| a.0.cmp(&b.0));
    let n = recs.len();
    (0..n)
        .map(|i| Nsec3Rec {
            orig: recs[i].1.clone(),
            hash: recs[i].0.clone(),
            next_hash: recs[(i + 1) % n].0.clone(),
            types: recs[i].2.clone(),
            opt_out: p.opt_out,
        })
        .collect()
}

pub fn cmp_names(a: &[Vec<u8>], b: &[Vec<u8>]) -> Ordering {
    canon::name_cmp(a, b)
}

#[cfg(test)]
mod tests {
    use super::*;

    #[test]
    fn rfc5155_appendix_a_hashes() {
        // RFC 5155 Appendix A: salt aabbccdd, 12 iterations
        let salt = [0xaa, 0xbb, 0xcc, 0xdd];
        let h = nsec3_hash(&parse_name("example"), &salt, 12);
        assert_eq!(data_encoding::BASE32_DNSSEC.encode(&h), "0p9mhaveqvm6t7vbl5lop2u3t2rp3tom");
        let h = nsec3_hash(&parse_name("a.example"), &salt, 12);
        assert_eq!(data_encoding::BASE32_DNSSEC.encode(&h), "35mthgpgcu1qg68fab165klnsnk3dpvl");
    }
}
