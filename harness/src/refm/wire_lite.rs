//! A small DNS wire reader / writer written from RFC 1035 §4.1 (message layout, §4.1.4
//! compression), RFC 6891 §6.1 (OPT pseudo-RR) and RFC 2671/6891 extended RCODE. It shares no
//! code with hickory: the C10/C11 oracles observe request and response octets through it.
//!
//! Names are `Vec<Vec<u8>>`, leftmost label first, absolute (the root is the empty list).

use super::canon;

pub type Name = Vec<Vec<u8>>;

pub const T_A: u16 = 1;
pub const T_NS: u16 = 2;
pub const T_CNAME: u16 = 5;
pub const T_SOA: u16 = 6;
pub const T_PTR: u16 = 12;
pub const T_MX: u16 = 15;
pub const T_TXT: u16 = 16;
pub const T_AAAA: u16 = 28;
pub const T_OPT: u16 = 41;
pub const T_DS: u16 = 43;
pub const T_RRSIG: u16 = 46;
pub const T_NSEC: u16 = 47;
pub const T_DNSKEY: u16 = 48;
pub const T_NSEC3: u16 = 50;
pub const T_NSEC3PARAM: u16 = 51;
pub const T_TSIG: u16 = 250;
pub const T_IXFR: u16 = 251;
pub const T_AXFR: u16 = 252;
pub const T_ANY: u16 = 255;

pub const RC_NOERROR: u16 = 0;
pub const RC_FORMERR: u16 = 1;
pub const RC_SERVFAIL: u16 = 2;
pub const RC_NXDOMAIN: u16 = 3;
pub const RC_NOTIMP: u16 = 4;
pub const RC_REFUSED: u16 = 5;
pub const RC_BADVERS: u16 = 16;

pub fn type_name(t: u16) -> String {
    match t {
        T_A => "A".into(),
        T_NS => "NS".into(),
        T_CNAME => "CNAME".into(),
        T_SOA => "SOA".into(),
        T_MX => "MX".into(),
        T_TXT => "TXT".into(),
        T_AAAA => "AAAA".into(),
        T_OPT => "OPT".into(),
        T_DS => "DS".into(),
        T_RRSIG => "RRSIG".into(),
        T_NSEC => "NSEC".into(),
        T_DNSKEY => "DNSKEY".into(),
        T_NSEC3 => "NSEC3".into(),
        T_NSEC3PARAM => "NSEC3PARAM".into(),
        T_ANY => "ANY".into(),
        t => format!("TYPE{t}"),
    }
}

pub fn rcode_name(r: u16) -> String {
    match r {
        0 => "NOERROR".into(),
        1 => "FORMERR".into(),
        2 => "SERVFAIL".into(),
        3 => "NXDOMAIN".into(),
        4 => "NOTIMP".into(),
        5 => "REFUSED".into(),
        6 => "YXDOMAIN".into(),
        7 => "YXRRSET".into(),
        8 => "NXRRSET".into(),
        9 => "NOTAUTH".into(),
        10 => "NOTZONE".into(),
        16 => "BADVERS".into(),
        r => format!("RCODE{r}"),
    }
}

#[derive(Clone, Debug, PartialEq, Eq)]
pub enum WireErr {
    /// fewer than 12 octets
    ShortHeader,
    /// a field runs past the end of the message
    Truncated(&'static str),
    /// label type 0b01 / 0b10 (reserved, RFC 1035 §4.1.4)
    BadLabelType,
    /// a compression pointer that does not point strictly backwards
    BadPointer,
    /// more than 255 octets of name (RFC 1035 §2.3.4) — also how pointer loops end
    NameTooLong,
}

#[derive(Clone, Debug, Default)]
pub struct Header {
    pub id: u16,
    pub qr: bool,
    pub opcode: u8,
    pub aa: bool,
    pub tc: bool,
    pub rd: bool,
    pub ra: bool,
    pub z: u8,
    pub rcode_low: u8,
    pub qd: u16,
    pub an: u16,
    pub ns: u16,
    pub ar: u16,
}

#[derive(Clone, Debug)]
pub struct Question {
    pub name: Name,
    pub qtype: u16,
    pub qclass: u16,
    /// octet range of this question in the message
    pub start: usize,
    pub end: usize,
    /// the name was encoded with at least one compression pointer
    pub used_pointer: bool,
}

#[derive(Clone, Debug)]
pub struct Rr {
    pub owner: Name,
    pub rtype: u16,
    pub class: u16,
    pub ttl: u32,
    /// offset of the RDATA in the message (names inside may be compressed relative to the message)
    pub rdata_off: usize,
    pub rdlen: usize,
}

#[derive(Clone, Debug)]
pub struct Edns {
    pub udp_payload: u16,
    pub ext_rcode: u8,
    pub version: u8,
    pub do_bit: bool,
}

#[derive(Clone, Debug)]
pub struct Msg {
    pub header: Header,
    pub questions: Vec<Question>,
    pub answers: Vec<Rr>,
    pub authorities: Vec<Rr>,
    pub additionals: Vec<Rr>,
    /// first OPT RR of the additional section, if any
    pub edns: Option<Edns>,
    pub opt_count: usize,
    /// octets after the last counted record
    pub trailing: usize,
}

impl Msg {
    /// RFC 6891 §6.1.3: the 12-bit RCODE is OPT.ext_rcode (upper 8 bits) ‖ header RCODE (lower 4)
    pub fn rcode(&self) -> u16 {
        let hi = self.edns.as_ref().map(|e| e.ext_rcode as u16).unwrap_or(0);
        (hi << 4) | self.header.rcode_low as u16
    }
}

pub fn u16_at(m: &[u8], off: usize) -> Option<u16> {
    Some(u16::from_be_bytes([*m.get(off)?, *m.get(off + 1)?]))
}

pub fn parse_header(m: &[u8]) -> Result<Header, WireErr> {
    if m.len() < 12 {
        return Err(WireErr::ShortHeader);
    }
    let f1 = m[2];
    let f2 = m[3];
    Ok(Header {
        id: u16::from_be_bytes([m[0], m[1]]),
        qr: f1 & 0x80 != 0,
        opcode: (f1 >> 3) & 0x0f,
        aa: f1 & 0x04 != 0,
        tc: f1 & 0x02 != 0,
        rd: f1 & 0x01 != 0,
        ra: f2 & 0x80 != 0,
        z: (f2 >> 4) & 0x07,
        rcode_low: f2 & 0x0f,
        qd: u16::from_be_bytes([m[4], m[5]]),
        an: u16::from_be_bytes([m[6], m[7]]),
        ns: u16::from_be_bytes([m[8], m[9]]),
        ar: u16::from_be_bytes([m[10], m[11]]),
    })
}

/// RFC 1035 §4.1.4. Returns (labels, offset after the name in the stream, pointer used).
/// A pointer must refer to a *prior* occurrence: here, strictly before the pointer itself.
pub fn read_name(m: &[u8], mut off: usize) -> Result<(Name, usize, bool), WireErr> {
    let mut labels: Name = Vec::new();
    let mut wire = 1usize;
    let mut after: Option<usize> = None;
    let mut used_pointer = false;
    loop {
        let b = *m.get(off).ok_or(WireErr::Truncated("name"))?;
        match b & 0xc0 {
            0x00 => {
                if b == 0 {
                    off += 1;
                    break;
                }
                let l = b as usize;
                let s = m.get(off + 1..off + 1 + l).ok_or(WireErr::Truncated("label"))?;
                wire += l + 1;
                if wire > 255 {
                    return Err(WireErr::NameTooLong);
                }
                labels.push(s.to_vec());
                off += 1 + l;
            }
            0xc0 => {
                let b2 = *m.get(off + 1).ok_or(WireErr::Truncated("pointer"))?;
                let target = (((b & 0x3f) as usize) << 8) | b2 as usize;
                if target >= off {
                    return Err(WireErr::BadPointer);
                }
                if after.is_none() {
                    after = Some(off + 2);
                }
                used_pointer = true;
                off = target;
            }
            _ => return Err(WireErr::BadLabelType),
        }
    }
    Ok((labels, after.unwrap_or(off), used_pointer))
}

fn read_rr(m: &[u8], off: usize) -> Result<(Rr, usize), WireErr> {
    let (owner, o, _) = read_name(m, off)?;
    let fixed = m.get(o..o + 10).ok_or(WireErr::Truncated("rr-fixed"))?;
    let rtype = u16::from_be_bytes([fixed[0], fixed[1]]);
    let class = u16::from_be_bytes([fixed[2], fixed[3]]);
    let ttl = u32::from_be_bytes([fixed[4], fixed[5], fixed[6], fixed[7]]);
    let rdlen = u16::from_be_bytes([fixed[8], fixed[9]]) as usize;
    let rdata_off = o + 10;
    if rdata_off + rdlen > m.len() {
        return Err(WireErr::Truncated("rdata"));
    }
    Ok((
        Rr {
            owner,
            rtype,
            class,
            ttl,
            rdata_off,
            rdlen,
        },
        rdata_off + rdlen,
    ))
}

/// only the question section (the part of the request that must be echoed)
pub fn parse_questions(m: &[u8], h: &Header) -> Result<(Vec<Question>, usize), WireErr> {
    let mut off = 12;
    let mut qs = Vec::new();
    for _ in 0..h.qd {
        let start = off;
        let (name, o, used_pointer) = read_name(m, off)?;
        let qtype = u16_at(m, o).ok_or(WireErr::Truncated("qtype"))?;
        let qclass = u16_at(m, o + 2).ok_or(WireErr::Truncated("qclass"))?;
        off = o + 4;
        qs.push(Question {
            name,
            qtype,
            qclass,
            start,
            end: off,
            used_pointer,
        });
    }
    Ok((qs, off))
}

/// framing-level parse of a whole message: header, questions, RR envelopes
pub fn parse(m: &[u8]) -> Result<Msg, WireErr> {
    let header = parse_header(m)?;
    let (questions, mut off) = parse_questions(m, &header)?;
    let mut secs: [Vec<Rr>; 3] = [Vec::new(), Vec::new(), Vec::new()];
    for (i, n) in [header.an, header.ns, header.ar].into_iter().enumerate() {
        for _ in 0..n {
            let (rr, o) = read_rr(m, off)?;
            off = o;
            secs[i].push(rr);
        }
    }
    let [answers, authorities, additionals] = secs;
    let mut edns = None;
    let mut opt_count = 0;
    for rr in &additionals {
        if rr.rtype == T_OPT {
            opt_count += 1;
            if edns.is_none() {
                // RFC 6891 §6.1.2/§6.1.3: CLASS = payload size, TTL = ext-rcode | version | DO | Z
                edns = Some(Edns {
                    udp_payload: rr.class,
                    ext_rcode: (rr.ttl >> 24) as u8,
                    version: (rr.ttl >> 16) as u8,
                    do_bit: rr.ttl & 0x8000 != 0,
                });
            }
        }
    }
    Ok(Msg {
        header,
        questions,
        answers,
        authorities,
        additionals,
        edns,
        opt_count,
        trailing: m.len() - off,
    })
}

fn put_name(out: &mut Vec<u8>, n: &[Vec<u8>], lower: bool) {
    for l in n {
        out.push(l.len() as u8);
        if lower {
            out.extend(l.iter().map(|b| canon::fold(*b)));
        } else {
            out.extend_from_slice(l);
        }
    }
    out.push(0);
}

/// uncompressed wire form of a name
pub fn name_wire(n: &[Vec<u8>]) -> Vec<u8> {
    let mut v = Vec::new();
    put_name(&mut v, n, false);
    v
}

/// RDATA with embedded names decompressed and lower-cased for the types whose RDATA may be
/// compressed on the wire (RFC 1035 §3.3: NS, CNAME, PTR, MX, SOA) — so that two encodings of
/// the same record compare equal octet for octet. Everything else is returned verbatim.
pub fn rdata_canon(m: &[u8], rr: &Rr) -> Result<Vec<u8>, WireErr> {
    let raw = &m[rr.rdata_off..rr.rdata_off + rr.rdlen];
    let end = rr.rdata_off + rr.rdlen;
    let mut out = Vec::new();
    match rr.rtype {
        T_NS | T_CNAME | T_PTR => {
            let (n, o, _) = read_name(m, rr.rdata_off)?;
            if o != end {
                return Err(WireErr::Truncated("rdata-name-length"));
            }
            put_name(&mut out, &n, true);
        }
        T_MX => {
            if rr.rdlen < 3 {
                return Err(WireErr::Truncated("mx"));
            }
            out.extend_from_slice(&raw[..2]);
            let (n, o, _) = read_name(m, rr.rdata_off + 2)?;
            if o != end {
                return Err(WireErr::Truncated("rdata-name-length"));
            }
            put_name(&mut out, &n, true);
        }
        T_SOA => {
            let (n1, o1, _) = read_name(m, rr.rdata_off)?;
            let (n2, o2, _) = read_name(m, o1)?;
            if o2 + 20 != end {
                return Err(WireErr::Truncated("soa"));
            }
            put_name(&mut out, &n1, true);
            put_name(&mut out, &n2, true);
            out.extend_from_slice(&m[o2..end]);
        }
        _ => out.extend_from_slice(raw),
    }
    Ok(out)
}

/// RRSIG RDATA head (RFC 4034 §3.1): type covered, algorithm, labels
pub fn rrsig_head(m: &[u8], rr: &Rr) -> Option<(u16, u8, u8)> {
    if rr.rtype != T_RRSIG || rr.rdlen < 18 {
        return None;
    }
    let r = &m[rr.rdata_off..];
    Some((u16::from_be_bytes([r[0], r[1]]), r[2], r[3]))
}

/// character-strings of a TXT RDATA (RFC 1035 §3.3.14)
pub fn txt_strings(m: &[u8], rr: &Rr) -> Vec<Vec<u8>> {
    let raw = &m[rr.rdata_off..rr.rdata_off + rr.rdlen];
    let mut out = Vec::new();
    let mut i = 0;
    while i < raw.len() {
        let l = raw[i] as usize;
        let Some(s) = raw.get(i + 1..i + 1 + l) else { break };
        out.push(s.to_vec());
        i += 1 + l;
    }
    out
}

// ---------------------------------------------------------------------------------------------
// writer

#[derive(Clone, Debug)]
pub struct OutRr {
    pub owner: Name,
    pub rtype: u16,
    pub class: u16,
    pub ttl: u32,
    pub rdata: Vec<u8>,
}

impl OutRr {
    /// RFC 6891 §6.1.2 OPT pseudo-RR
    pub fn opt(payload: u16, ext_rcode: u8, version: u8, do_bit: bool, options: Vec<u8>) -> Self {
        let ttl = ((ext_rcode as u32) << 24) | ((version as u32) << 16) | if do_bit { 0x8000 } else { 0 };
        OutRr {
            owner: vec![],
            rtype: T_OPT,
            class: payload,
            ttl,
            rdata: options,
        }
    }
}

pub fn header_bytes(id: u16, qr: bool, opcode: u8, flags_low: u8, rcode: u8, counts: [u16; 4]) -> Vec<u8> {
    // flags_low: bit0 RD, bit1 TC, bit2 AA (of the first flag octet); second octet: only rcode here
    let mut v = Vec::with_capacity(12);
    v.extend_from_slice(&id.to_be_bytes());
    v.push(if qr { 0x80 } else { 0 } | ((opcode & 0x0f) << 3) | (flags_low & 0x07));
    v.push(rcode & 0x0f);
    for c in counts {
        v.extend_from_slice(&c.to_be_bytes());
    }
    v
}

pub fn put_question(out: &mut Vec<u8>, name: &[Vec<u8>], qtype: u16, qclass: u16) {
    put_name(out, name, false);
    out.extend_from_slice(&qtype.to_be_bytes());
    out.extend_from_slice(&qclass.to_be_bytes());
}

pub fn put_rr(out: &mut Vec<u8>, rr: &OutRr) {
    put_name(out, &rr.owner, false);
    out.extend_from_slice(&rr.rtype.to_be_bytes());
    out.extend_from_slice(&rr.class.to_be_bytes());
    out.extend_from_slice(&rr.ttl.to_be_bytes());
    out.extend_from_slice(&(rr.rdata.len() as u16).to_be_bytes());
    out.extend_from_slice(&rr.rdata);
}

/// a plain one-question request (QUERY, RD clear) with an optional OPT record
pub fn build_query(id: u16, name: &[Vec<u8>], qtype: u16, qclass: u16, opt: Option<&OutRr>) -> Vec<u8> {
    let mut v = header_bytes(id, false, 0, 0, 0, [1, 0, 0, u16::from(opt.is_some())]);
    put_question(&mut v, name, qtype, qclass);
    if let Some(o) = opt {
        put_rr(&mut v, o);
    }
    v
}

pub fn parse_name_str(s: &str) -> Name {
    s.split('.').filter(|l| !l.is_empty()).map(|l| l.as_bytes().to_vec()).collect()
}
