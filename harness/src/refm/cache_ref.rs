//! `cache_ref` — pure model of a TTL-bounded response cache, written from the statement of
//! property C15 and the rustdoc of `TtlConfig` (not from `ResponseCache`'s code).
//!
//! Sources of every rule:
//!
//! * C15 statement: "never returns an entry more than L seconds after its insertion, where L is
//!   the smallest TTL among the entry's records of the queried type (or CNAME), clamped to the
//!   configured bounds for that query type" — `positive_lifetime`.
//! * C15 statement: "every TTL it reports equals the per-type clamped stored TTL minus the whole
//!   seconds elapsed (floored at zero)" — `clamp_record_ttl`, `reported`.
//! * C15 statement: "A negative answer is kept no longer than its negative TTL clamped to the
//!   configured negative bounds" — `negative_lifetime`.
//! * `TtlConfig` rustdoc: "If a minimum value is not provided, it will default to 0 seconds. If a
//!   maximum value is not provided, it will default to one day." and "Separate limits may be set
//!   depending on the query type" (a per-type entry replaces the default entry as a whole).
//! * RFC 2308 §5: the negative TTL of a response is the minimum of the SOA MINIMUM field and the
//!   TTL of the SOA record itself — `rfc2308_negative_ttl`.
//! * RFC 2181 §5.4.1 / §10.1.1 motivate why CNAME TTLs bound the lifetime of an aliased answer.
//!
//! L is computed from the *stored* TTLs, i.e. after each record has been clamped with the bounds of
//! its own type (the statement's "per-type clamped stored TTL"); the other conceivable reading --
//! the smallest upstream TTL -- is returned as `Lifetime::alt` and only counted.

use serde::{Deserialize, Serialize};

pub const DAY: u64 = 86_400;

/// one `TtlBounds` table of the configuration; `None` = not configured
#[derive(Clone, Copy, Debug, Default, PartialEq, Eq, Hash, Serialize, Deserialize)]
pub struct Bounds {
    pub pmin: Option<u64>,
    pub pmax: Option<u64>,
    pub nmin: Option<u64>,
    pub nmax: Option<u64>,
}

impl Bounds {
    /// effective positive bounds (rustdoc defaults: 0 s and one day)
    pub fn pos(&self) -> (u64, u64) {
        (self.pmin.unwrap_or(0), self.pmax.unwrap_or(DAY))
    }
    pub fn neg(&self) -> (u64, u64) {
        (self.nmin.unwrap_or(0), self.nmax.unwrap_or(DAY))
    }
    /// bounds are meaningful only when min <= max (the statement's "clamped to the configured
    /// bounds" is undefined otherwise)
    pub fn consistent(&self) -> bool {
        let (a, b) = self.pos();
        let (c, d) = self.neg();
        a <= b && c <= d
    }
}

/// record / query types are identified by their RR type code (RFC 1035 §3.2.2, RFC 3596)
pub type TypeCode = u16;
pub const T_CNAME: TypeCode = 5;

#[derive(Clone, Debug, Default, PartialEq, Eq, Hash, Serialize, Deserialize)]
pub struct Config {
    pub default: Bounds,
    pub by_type: Vec<(TypeCode, Bounds)>,
}

impl Config {
    pub fn bounds_for(&self, ty: TypeCode) -> Bounds {
        self.by_type
            .iter()
            .rev()
            .find(|(t, _)| *t == ty)
            .map(|(_, b)| *b)
            .unwrap_or(self.default)
    }
    pub fn consistent(&self) -> bool {
        self.default.consistent() && self.by_type.iter().all(|(_, b)| b.consistent())
    }
}

pub fn clamp(v: u64, (min, max): (u64, u64)) -> u64 {
    debug_assert!(min <= max);
    v.max(min).min(max)
}

/// "per-type clamped stored TTL": the record's TTL clamped to the positive bounds configured for
/// the record's *own* type
pub fn clamp_record_ttl(cfg: &Config, rtype: TypeCode, ttl: u32) -> u64 {
    clamp(ttl as u64, cfg.bounds_for(rtype).pos())
}

/// what a lookup `elapsed_ns` after the insert must report for a stored TTL
pub fn reported(stored: u64, elapsed_ns: u64) -> u64 {
    stored.saturating_sub(elapsed_ns / 1_000_000_000)
}

/// Lifetime in seconds. `hi` is the longest lifetime any reading of the statement permits (served
/// later than that = violation); `lo` the shortest (an entry younger than that is certainly live,
/// used only to measure the hit ratio).
#[derive(Clone, Copy, Debug, PartialEq, Eq)]
pub struct Lifetime {
    pub lo: u64,
    pub hi: u64,
    /// L under the reading "smallest upstream TTL, clamped to the query type's bounds" (not asserted)
    pub alt: u64,
}

/// `records` = (type, upstream TTL) of every record of the message, all sections.
/// None = the message has no record of the queried type and no CNAME: the statement defines no L.
pub fn positive_lifetime(cfg: &Config, qtype: TypeCode, records: &[(TypeCode, u32)]) -> Option<Lifetime> {
    let rel: Vec<&(TypeCode, u32)> = records.iter().filter(|(t, _)| *t == qtype || *t == T_CNAME).collect();
    if rel.is_empty() {
        return None;
    }
    let qb = cfg.bounds_for(qtype).pos();
    // reading 1: smallest upstream TTL, clamped to the query type's bounds
    let raw = rel.iter().map(|(_, ttl)| *ttl as u64).min().unwrap();
    // reading 2: smallest *stored* (per-type clamped) TTL, clamped to the query type's bounds
    let stored = rel.iter().map(|(t, ttl)| clamp_record_ttl(cfg, *t, *ttl)).min().unwrap();
    let (a, b) = (clamp(raw, qb), clamp(stored, qb));
    Some(Lifetime { lo: b, hi: b, alt: a })
}

/// None = the negative answer carries no negative TTL: the statement defines no bound
pub fn negative_lifetime(cfg: &Config, qtype: TypeCode, negative_ttl: Option<u32>) -> Option<Lifetime> {
    let n = negative_ttl?;
    let l = clamp(n as u64, cfg.bounds_for(qtype).neg());
    Some(Lifetime { lo: l, hi: l, alt: l })
}

/// RFC 2308 §5
pub fn rfc2308_negative_ttl(soa_ttl: u32, soa_minimum: u32) -> u32 {
    soa_ttl.min(soa_minimum)
}
