//! Reference models written from the RFC text; they share no code with hickory.
pub mod canon;
pub mod wire_ref;
pub mod dnswire;
