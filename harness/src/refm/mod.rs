//! Reference models written from the RFC text; they share no code with hickory.
pub mod canon;
pub mod wire_ref;
pub mod dnswire;
pub mod auth_ref;
pub mod frontdoor_ref;
pub mod wire_lite;
