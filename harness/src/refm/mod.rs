//! Reference models written from the RFC text; they share no code with hickory.
pub mod canon;
pub mod wire_ref;
pub mod dnswire;
pub mod auth_ref;
pub mod frontdoor_ref;
pub mod wire_lite;
pub mod dnssec_wire;
pub mod tbs_ref;
pub mod val_ref;
pub mod authsim;
pub mod cache_ref;
pub mod zonefile_printer;
pub mod tsig_ref;
pub mod update_ref;
pub mod zonemodel;
