//! RFC 2136 reference model: prerequisite evaluation (§3.2.5), update prescan (§3.4.1.3) and
//! update application (§3.4.2.7) over an own zone representation, with RFC 1982 serial
//! arithmetic. Written from the RFC pseudocode; shares no code with hickory.
//!
//! Where the RFC text and its pseudocode disagree, or RFC 1982 leaves a comparison undefined, the
//! model *branches* and returns every outcome the RFC allows (see `step`):
//!   * SOA add with serial equal to the zone's: §3.4.2.2 text says "lower ... than or equal" is
//!     ignored, the pseudocode (`zone_rr.serial > rr.soa.serial`) replaces on equality.
//!   * SOA add whose serial is at distance 2^31 from the zone's: RFC 1982 §3.2 undefined.
//!   * class NONE delete of the only NS of a *non-apex* NS RRset: §3.4.2.4 text protects only the
//!     apex, the pseudocode (`rr.type == NS && zone_rrset<rr.name, NS> == rr`) protects any name.
//!   * class = zone add with RDLENGTH 0 (not a row of table 3.4.2.6): the pseudocode adds it
//!     literally; refusing the message (FORMERR, nothing changed) is also accepted.
//!
//! The model can additionally be run with `Quirk`s switched on. A quirk replaces one RFC rule by the
//! deviating rule observed in hickory; quirks are used *only* to attribute an observed deviation to
//! a single root cause (narrow known-finding signatures), never to decide what is correct.

use std::collections::{BTreeMap, BTreeSet};

use serde::{Deserialize, Serialize};

use super::canon;

pub type Labels = Vec<Vec<u8>>;

pub const T_A: u16 = 1;
pub const T_NS: u16 = 2;
pub const T_CNAME: u16 = 5;
pub const T_SOA: u16 = 6;
pub const T_TXT: u16 = 16;
pub const T_AAAA: u16 = 28;
pub const T_TSIG: u16 = 250;
pub const T_IXFR: u16 = 251;
pub const T_AXFR: u16 = 252;
pub const T_MAILB: u16 = 253;
pub const T_MAILA: u16 = 254;
pub const T_ANY: u16 = 255;
/// a private-use type above 255 (carried as opaque RDATA): code order and "ANY = 255" must not matter
pub const T_PRIV: u16 = 65280;
/// a DNSSEC-family type that is ordinary data as far as RFC 2136 goes (RFC 4035 2.5 admits only RRSIG, NSEC and KEY beside a CNAME)
pub const T_DS: u16 = 43;

pub const C_IN: u16 = 1;
pub const C_CH: u16 = 3;
pub const C_NONE: u16 = 254;
pub const C_ANY: u16 = 255;

pub const RC_NOERROR: u8 = 0;
pub const RC_FORMERR: u8 = 1;
pub const RC_SERVFAIL: u8 = 2;
pub const RC_NXDOMAIN: u8 = 3;
pub const RC_NOTIMP: u8 = 4;
pub const RC_REFUSED: u8 = 5;
pub const RC_YXDOMAIN: u8 = 6;
pub const RC_YXRRSET: u8 = 7;
pub const RC_NXRRSET: u8 = 8;
pub const RC_NOTAUTH: u8 = 9;
pub const RC_NOTZONE: u8 = 10;

pub fn type_name(t: u16) -> String {
    match t {
        T_A => "A".into(),
        T_NS => "NS".into(),
        T_CNAME => "CNAME".into(),
        T_SOA => "SOA".into(),
        T_TXT => "TXT".into(),
        T_AAAA => "AAAA".into(),
        T_AXFR => "AXFR".into(),
        T_ANY => "ANY".into(),
        o => format!("TYPE{o}"),
    }
}

pub fn class_name(c: u16) -> String {
    match c {
        C_IN => "IN".into(),
        C_CH => "CH".into(),
        C_NONE => "NONE".into(),
        C_ANY => "ANY".into(),
        o => format!("CLASS{o}"),
    }
}

// ---------------------------------------------------------------------------------------------
// wire helpers (uncompressed)

pub fn name_wire(labels: &[Vec<u8>]) -> Vec<u8> {
    let mut v = Vec::with_capacity(canon::wire_len(labels));
    for l in labels {
        v.push(l.len() as u8);
        v.extend_from_slice(l);
    }
    v.push(0);
    v
}

pub fn labels_of(s: &str) -> Labels {
    s.split('.').filter(|l| !l.is_empty()).map(|l| l.as_bytes().to_vec()).collect()
}

/// SOA RDATA (RFC 1035 §3.3.13), names uncompressed
pub fn soa_rdata(mname: &[Vec<u8>], rname: &[Vec<u8>], serial: u32, refresh: u32, retry: u32, expire: u32, minimum: u32) -> Vec<u8> {
    let mut v = name_wire(mname);
    v.extend(name_wire(rname));
    for x in [serial, refresh, retry, expire, minimum] {
        v.extend_from_slice(&x.to_be_bytes());
    }
    v
}

/// offset of the SERIAL field inside an (uncompressed) SOA RDATA
fn soa_serial_offset(rdata: &[u8]) -> Option<usize> {
    let mut i = 0usize;
    for _ in 0..2 {
        loop {
            let l = *rdata.get(i)? as usize;
            if l & 0xC0 != 0 {
                return None;
            }
            i += 1 + l;
            if l == 0 {
                break;
            }
        }
    }
    if rdata.len() == i + 20 {
        Some(i)
    } else {
        None
    }
}

pub fn soa_serial(rdata: &[u8]) -> Option<u32> {
    let o = soa_serial_offset(rdata)?;
    Some(u32::from_be_bytes([rdata[o], rdata[o + 1], rdata[o + 2], rdata[o + 3]]))
}

pub fn soa_with_serial(rdata: &[u8], serial: u32) -> Vec<u8> {
    let mut v = rdata.to_vec();
    if let Some(o) = soa_serial_offset(rdata) {
        v[o..o + 4].copy_from_slice(&serial.to_be_bytes());
    }
    v
}

// ---------------------------------------------------------------------------------------------
// RFC 1982 serial number arithmetic, SERIAL_BITS = 32

#[derive(Clone, Copy, Debug, PartialEq, Eq)]
pub enum SerialOrd {
    Less,
    Equal,
    Greater,
    /// distance exactly 2^31: RFC 1982 §3.2 leaves the comparison undefined
    Undefined,
}

/// compare i1 with i2 (RFC 1982 §3.2)
pub fn serial_cmp(i1: u32, i2: u32) -> SerialOrd {
    if i1 == i2 {
        return SerialOrd::Equal;
    }
    let d = i2.wrapping_sub(i1); // how far i2 is ahead of i1, mod 2^32
    if d == 1 << 31 {
        SerialOrd::Undefined
    } else if d < 1 << 31 {
        SerialOrd::Less
    } else {
        SerialOrd::Greater
    }
}

/// `after` is strictly greater than `before` in RFC 1982 arithmetic
pub fn serial_gt(after: u32, before: u32) -> bool {
    serial_cmp(after, before) == SerialOrd::Greater
}

// ---------------------------------------------------------------------------------------------
// zone model

/// key of one RR inside the zone: (owner lower-cased, type, rdata octets); RFC 2136 §1.1.1: TTL
/// is not part of RR identity
pub type RrId = (Labels, u16, Vec<u8>);

#[derive(Clone, Debug, PartialEq, Eq)]
pub struct Zone {
    /// lower-cased
    pub origin: Labels,
    pub class: u16,
    /// RR -> TTL
    pub rrs: BTreeMap<RrId, u32>,
}

impl Zone {
    pub fn new(origin: &[Vec<u8>]) -> Self {
        Self {
            origin: canon::lower(origin),
            class: C_IN,
            rrs: BTreeMap::new(),
        }
    }

    pub fn insert(&mut self, name: &[Vec<u8>], rtype: u16, ttl: u32, rdata: &[u8]) {
        self.rrs.insert((canon::lower(name), rtype, rdata.to_vec()), ttl);
    }

    /// RFC 2136 §1.2 zone_of(): the name is at or below the origin
    pub fn in_zone(&self, name: &[Vec<u8>]) -> bool {
        canon::is_suffix(&self.origin, name)
    }

    pub fn is_apex(&self, name: &[Vec<u8>]) -> bool {
        canon::name_eq(&self.origin, name)
    }

    /// zone_name<name>: at least one RR with that owner
    pub fn name_in_use(&self, name: &[Vec<u8>]) -> bool {
        let n = canon::lower(name);
        self.rrs.keys().any(|k| k.0 == n)
    }

    /// zone_rrset<name, type> as rdata -> ttl
    pub fn rrset(&self, name: &[Vec<u8>], rtype: u16) -> BTreeMap<Vec<u8>, u32> {
        let n = canon::lower(name);
        self.rrs
            .iter()
            .filter(|(k, _)| k.0 == n && k.1 == rtype)
            .map(|(k, t)| (k.2.clone(), *t))
            .collect()
    }

    pub fn types_at(&self, name: &[Vec<u8>]) -> BTreeSet<u16> {
        let n = canon::lower(name);
        self.rrs.keys().filter(|k| k.0 == n).map(|k| k.1).collect()
    }

    pub fn names(&self) -> BTreeSet<Labels> {
        self.rrs.keys().map(|k| k.0.clone()).collect()
    }

    pub fn soa(&self) -> Option<(Vec<u8>, u32)> {
        let o = self.origin.clone();
        self.rrs.iter().find(|(k, _)| k.0 == o && k.1 == T_SOA).map(|(k, t)| (k.2.clone(), *t))
    }

    pub fn serial(&self) -> Option<u32> {
        self.soa().and_then(|(r, _)| soa_serial(&r))
    }

    pub fn set_serial(&mut self, serial: u32) {
        if let Some((rd, ttl)) = self.soa() {
            self.rrs.remove(&(self.origin.clone(), T_SOA, rd.clone()));
            self.rrs.insert((self.origin.clone(), T_SOA, soa_with_serial(&rd, serial)), ttl);
        }
    }

    /// content with every SOA serial set to 0: the value of the serial after an update is the
    /// server's choice (RFC 2136 §3.6), only its relation to the old one is prescribed
    pub fn masked(&self) -> BTreeMap<RrId, u32> {
        self.rrs
            .iter()
            .map(|(k, t)| {
                if k.1 == T_SOA {
                    ((k.0.clone(), k.1, soa_with_serial(&k.2, 0)), *t)
                } else {
                    (k.clone(), *t)
                }
            })
            .collect()
    }

    /// name exists as an owner or as an empty non-terminal
    pub fn name_or_descendant_exists(&self, name: &[Vec<u8>]) -> bool {
        let n = canon::lower(name);
        self.rrs.keys().any(|k| canon::is_suffix(&n, &k.0))
    }

    pub fn show(&self) -> String {
        let mut s = String::new();
        for ((n, t, rd), ttl) in &self.rrs {
            s.push_str(&format!("{} {} {} {}; ", canon::show(n), ttl, type_name(*t), show_rdata(*t, rd)));
        }
        s
    }
}

pub fn show_rdata(t: u16, rd: &[u8]) -> String {
    if rd.is_empty() {
        return "<empty>".into();
    }
    match t {
        T_A if rd.len() == 4 => format!("{}.{}.{}.{}", rd[0], rd[1], rd[2], rd[3]),
        T_SOA => match soa_serial(rd) {
            Some(s) => format!("soa(serial={s},{})", crate::core::hexser::to_hex(&rd[rd.len() - 16..])),
            None => crate::core::hexser::to_hex(rd),
        },
        _ => rd.iter().map(|&b| if (0x21..0x7f).contains(&b) { (b as char).to_string() } else { format!("\\{b:03}") }).collect(),
    }
}

// ---------------------------------------------------------------------------------------------
// UPDATE message model

#[derive(Clone, Debug, PartialEq, Eq, Hash, Serialize, Deserialize)]
pub struct URr {
    /// owner as sent (case preserved)
    #[serde(with = "crate::core::hexvec")]
    pub name: Labels,
    pub rtype: u16,
    pub class: u16,
    pub ttl: u32,
    #[serde(with = "crate::core::hexser")]
    pub rdata: Vec<u8>,
}

impl URr {
    pub fn show(&self) -> String {
        format!(
            "{} {} {} {} {}",
            canon::show(&self.name),
            self.ttl,
            class_name(self.class),
            type_name(self.rtype),
            show_rdata(self.rtype, &self.rdata)
        )
    }

    pub fn wire(&self) -> Vec<u8> {
        let mut v = name_wire(&self.name);
        v.extend_from_slice(&self.rtype.to_be_bytes());
        v.extend_from_slice(&self.class.to_be_bytes());
        v.extend_from_slice(&self.ttl.to_be_bytes());
        v.extend_from_slice(&(self.rdata.len() as u16).to_be_bytes());
        v.extend_from_slice(&self.rdata);
        v
    }
}

#[derive(Clone, Debug, PartialEq, Eq, Hash, Serialize, Deserialize)]
pub struct UMsg {
    pub prereqs: Vec<URr>,
    pub updates: Vec<URr>,
    /// resolved by the interpreter against the zone as it is when the message is sent: the
    /// prerequisite section becomes "RRset exists (value dependent)" for *every* RR of one or two
    /// RRsets the zone holds at that moment, in a generated order (all true by construction)
    #[serde(default, skip_serializing_if = "Option::is_none")]
    pub full_prereq: Option<FullPrereq>,
}

#[derive(Clone, Debug, PartialEq, Eq, Hash, Serialize, Deserialize)]
pub struct FullPrereq {
    /// indices into the zone's RRsets (sorted by name, type; modulo their number)
    pub first: u8,
    pub second: Option<u8>,
    /// 0 = first RRset then second; 1 = alternating; 2 = second in the middle of the first;
    /// 3 = alternating, reversed
    pub order: u8,
}

impl UMsg {
    pub fn show(&self) -> String {
        format!(
            "PRE[{}] UPD[{}]",
            self.prereqs.iter().map(|r| r.show()).collect::<Vec<_>>().join(" | "),
            self.updates.iter().map(|r| r.show()).collect::<Vec<_>>().join(" | ")
        )
    }
}

// ---------------------------------------------------------------------------------------------
// quirks: deviating rules observed in hickory, used only to attribute deviations

#[derive(Clone, Copy, Debug, PartialEq, Eq, PartialOrd, Ord, Hash)]
pub enum Quirk {
    /// value-dependent prerequisite (class = zone) passes when the zone RRset merely *contains*
    /// the RR, instead of RRset equality (§3.2.3)
    PrereqSomeRrEqual,
    /// prerequisites are evaluated through the query lookup path, so wildcard synthesis, a CNAME at
    /// the name, or an NS RRset at/above the name answer for RRsets that do not exist
    PrereqViaLookup,
    /// "delete all RRsets at a name" at a non-apex name keeps SOA and NS RRsets there (the origin
    /// test that should protect the apex is inverted)
    AnyAnyKeepsNonApexSoaNs,
    /// add of an RR whose RDATA is already present but whose TTL differs is ignored (§3.4.2.2 says
    /// the zone RR is replaced by the update RR)
    DupRdataTtlIgnored,
    /// SOA replacement decided by plain `u32` comparison instead of RFC 1982
    SoaPlainCompare,
    /// re-adding a CNAME identical to the existing one counts as a change (serial bumped)
    IdenticalCnameCountsAsChange,
    /// class NONE delete of the last RR leaves an empty RRset object behind, which for the rest of
    /// the message still blocks CNAME/non-CNAME coexistence tests and counts as "something deleted"
    GhostRrset,
    /// an SOA RR in the update section whose owner is not the apex and where no SOA exists is
    /// inserted (§3.4.2.2: ignored when there is no zone SOA at that name)
    SoaNonApexInserted,
}

pub const ALL_QUIRKS: [Quirk; 8] = [
    Quirk::PrereqSomeRrEqual,
    Quirk::PrereqViaLookup,
    Quirk::AnyAnyKeepsNonApexSoaNs,
    Quirk::DupRdataTtlIgnored,
    Quirk::SoaPlainCompare,
    Quirk::IdenticalCnameCountsAsChange,
    Quirk::GhostRrset,
    Quirk::SoaNonApexInserted,
];

impl Quirk {
    pub fn sig(self) -> &'static str {
        match self {
            Quirk::PrereqSomeRrEqual => "prereq-value-dependent-is-some-rr-equal",
            Quirk::PrereqViaLookup => "prereq-evaluated-via-query-lookup",
            Quirk::AnyAnyKeepsNonApexSoaNs => "delete-all-at-name-origin-test-inverted",
            Quirk::DupRdataTtlIgnored => "add-duplicate-rdata-new-ttl-ignored",
            Quirk::SoaPlainCompare => "soa-serial-compared-as-plain-u32",
            Quirk::IdenticalCnameCountsAsChange => "identical-cname-readd-bumps-serial",
            Quirk::GhostRrset => "empty-rrset-left-after-delete-rr",
            Quirk::SoaNonApexInserted => "soa-added-at-non-apex-name",
        }
    }
}

pub type Quirks = BTreeSet<Quirk>;

// ---------------------------------------------------------------------------------------------
// one acceptable outcome of a message

#[derive(Clone, Debug, PartialEq, Eq)]
pub struct Outcome {
    pub accept: bool,
    /// informational (exact error codes are recorded, not asserted)
    pub rcode: u8,
    /// zone after the message; the SOA serial is as the *client* left it (server bump not applied)
    pub zone: Zone,
    /// the message changed the zone content (an SOA replaced by an identical SOA is no change)
    pub changed: bool,
    /// (name, type) of RRsets emptied by a class NONE delete in this message (the RFC model has no
    /// use for it; the harness uses it to know where an implementation may have left a ghost)
    pub emptied: BTreeSet<(Labels, u16)>,
    /// which branch points were taken (for evidence)
    pub branches: Vec<&'static str>,
}

fn is_meta_for_zone_class(t: u16) -> bool {
    // §3.4.1.2 "ANY, AXFR, MAILA, MAILB, or any other QUERY metatype"
    matches!(t, T_ANY | T_AXFR | T_MAILA | T_MAILB | T_IXFR)
}

/// §3.2.5 prerequisite section processing. `dont_care` (only with Quirk::PrereqViaLookup) returns
/// Err(None) when the verdict depends on an RR the quirk makes unpredictable.
pub fn prerequisites(zone: &Zone, prereqs: &[URr], quirks: &Quirks) -> Result<Result<(), u8>, ()> {
    prerequisites_g(zone, &BTreeSet::new(), prereqs, quirks)
}

/// `ghosts`: empty RRset objects an earlier message left in the implementation's map
/// (Quirk::GhostRrset). They hold no RR, so per RFC 2136 they are no RRset; through the lookup path
/// (Quirk::PrereqViaLookup) some of them answer for other RRsets, see `ghost_affected`.
pub fn prerequisites_g(zone: &Zone, ghosts: &BTreeSet<(Labels, u16)>, prereqs: &[URr], quirks: &Quirks) -> Result<Result<(), u8>, ()> {
    let mut temp: BTreeMap<(Labels, u16), BTreeSet<Vec<u8>>> = BTreeMap::new();
    let via_lookup = quirks.contains(&Quirk::PrereqViaLookup);
    let mut unpredictable = false;
    for rr in prereqs {
        if rr.ttl != 0 {
            return Ok(Err(RC_FORMERR));
        }
        if !zone.in_zone(&rr.name) {
            return Ok(Err(RC_NOTZONE));
        }
        let affected = via_lookup && (lookup_affected(zone, &rr.name, rr.rtype) || ghost_affected(zone, ghosts, &rr.name, rr.rtype));
        if rr.class == C_ANY {
            if !rr.rdata.is_empty() {
                return Ok(Err(RC_FORMERR));
            }
            if affected {
                unpredictable = true;
                continue;
            }
            if rr.rtype == T_ANY {
                if !zone.name_in_use(&rr.name) {
                    return Ok(Err(RC_NXDOMAIN));
                }
            } else if zone.rrset(&rr.name, rr.rtype).is_empty() {
                return Ok(Err(RC_NXRRSET));
            }
        } else if rr.class == C_NONE {
            if !rr.rdata.is_empty() {
                return Ok(Err(RC_FORMERR));
            }
            if affected {
                unpredictable = true;
                continue;
            }
            if rr.rtype == T_ANY {
                if zone.name_in_use(&rr.name) {
                    return Ok(Err(RC_YXDOMAIN));
                }
            } else if !zone.rrset(&rr.name, rr.rtype).is_empty() {
                return Ok(Err(RC_YXRRSET));
            }
        } else if rr.class == zone.class {
            if affected {
                unpredictable = true;
                continue;
            }
            if quirks.contains(&Quirk::PrereqSomeRrEqual) {
                // deviating rule: judged RR by RR, in order
                if !zone.rrset(&rr.name, rr.rtype).contains_key(&rr.rdata) {
                    return Ok(Err(RC_NXRRSET));
                }
            } else {
                temp.entry((canon::lower(&rr.name), rr.rtype)).or_default().insert(rr.rdata.clone());
            }
        } else {
            return Ok(Err(RC_FORMERR));
        }
    }
    for ((name, rtype), set) in &temp {
        let z: BTreeSet<Vec<u8>> = zone.rrset(name, *rtype).into_keys().collect();
        if &z != set {
            return Ok(Err(RC_NXRRSET));
        }
    }
    if unpredictable {
        return Err(());
    }
    Ok(Ok(()))
}

/// the query lookup path answers differently from "the zone holds this RRset" when: a CNAME is at
/// the name, an NS RRset sits at the name or between it and the apex (referral), the name or type
/// is absent and some wildcard at or above could be synthesised from, or the type is ANY (which
/// the lookup path replaces by one concrete type present at the name)
fn lookup_affected(zone: &Zone, name: &[Vec<u8>], rtype: u16) -> bool {
    let n = canon::lower(name);
    if rtype != T_CNAME && !zone.rrset(&n, T_CNAME).is_empty() {
        return true;
    }
    // delegation at or above (below the apex)
    let mut cur = n.clone();
    while cur.len() > zone.origin.len() {
        if !zone.rrset(&cur, T_NS).is_empty() {
            return true;
        }
        cur.remove(0);
    }
    if rtype == T_ANY && zone.types_at(&n).len() > 1 {
        return true;
    }
    // wildcard candidates: replace the leftmost k labels by "*"
    let absent = if rtype == T_ANY { !zone.name_in_use(&n) } else { zone.rrset(&n, rtype).is_empty() };
    if absent && n.first().map(|l| l.as_slice()) != Some(b"*") {
        let mut cur = n.clone();
        while cur.len() > zone.origin.len() {
            cur.remove(0);
            let mut w = vec![b"*".to_vec()];
            w.extend(cur.iter().cloned());
            if zone.name_in_use(&w) {
                return true;
            }
        }
    }
    false
}

/// the lookup path meets an empty RRset object where it matters for another RRset: an empty CNAME
/// set at the name is found before (and instead of) types that sort after CNAME, an empty NS set
/// at or above the name (below the apex) reads as a delegation, and ANY walks over every object
/// at the name. An empty set of the very type asked for is simply an empty answer ("no such
/// RRset", as RFC 2136 has it) and is *not* an excuse.
fn ghost_affected(zone: &Zone, ghosts: &BTreeSet<(Labels, u16)>, name: &[Vec<u8>], rtype: u16) -> bool {
    if ghosts.is_empty() {
        return false;
    }
    let n = canon::lower(name);
    if rtype == T_ANY && ghosts.iter().any(|g| g.0 == n) {
        return true;
    }
    if rtype != T_CNAME && ghosts.contains(&(n.clone(), T_CNAME)) {
        return true;
    }
    let mut cur = n.clone();
    while cur.len() > zone.origin.len() {
        if ghosts.contains(&(cur.clone(), T_NS)) && !(cur == n && rtype == T_NS) {
            return true;
        }
        cur.remove(0);
    }
    false
}

/// §3.4.1.3 update section prescan
pub fn prescan(zone: &Zone, updates: &[URr]) -> Result<(), u8> {
    for rr in updates {
        if !zone.in_zone(&rr.name) {
            return Err(RC_NOTZONE);
        }
        if rr.class == zone.class {
            if is_meta_for_zone_class(rr.rtype) {
                return Err(RC_FORMERR);
            }
        } else if rr.class == C_ANY {
            if rr.ttl != 0 || !rr.rdata.is_empty() || matches!(rr.rtype, T_AXFR | T_MAILA | T_MAILB | T_IXFR) {
                return Err(RC_FORMERR);
            }
        } else if rr.class == C_NONE {
            if rr.ttl != 0 || is_meta_for_zone_class(rr.rtype) {
                return Err(RC_FORMERR);
            }
        } else {
            return Err(RC_FORMERR);
        }
    }
    Ok(())
}

#[derive(Clone)]
struct ApplyState {
    zone: Zone,
    changed: bool,
    ghosts: BTreeSet<(Labels, u16)>,
    emptied: BTreeSet<(Labels, u16)>,
    branches: Vec<&'static str>,
}

/// §3.4.2.7 update section processing; returns every outcome the RFC (or the quirked rules) allow
fn apply(zone: &Zone, ghosts0: &BTreeSet<(Labels, u16)>, updates: &[URr], quirks: &Quirks) -> Vec<ApplyState> {
    let mut states = vec![ApplyState {
        zone: zone.clone(),
        changed: false,
        ghosts: if quirks.contains(&Quirk::GhostRrset) { ghosts0.clone() } else { BTreeSet::new() },
        emptied: BTreeSet::new(),
        branches: vec![],
    }];
    for rr in updates {
        let mut next = Vec::new();
        for st in states {
            apply_one(st, rr, quirks, &mut next);
        }
        // bound the branching (ambiguities are rare; 16 is never reached by the generator)
        next.truncate(16);
        states = next;
    }
    states
}

fn apply_one(mut st: ApplyState, rr: &URr, quirks: &Quirks, out: &mut Vec<ApplyState>) {
    let name = canon::lower(&rr.name);
    let zclass = st.zone.class;
    let ghost_q = quirks.contains(&Quirk::GhostRrset);
    if rr.class == zclass {
        // CNAME coexistence: "if (rr.type == CNAME) if (zone_rrset<rr.name, ~CNAME>) next
        //                     elsif (zone_rrset<rr.name, CNAME>) next"
        let types = st.zone.types_at(&name);
        let mut occupied: BTreeSet<u16> = types.clone();
        if ghost_q {
            occupied.extend(st.ghosts.iter().filter(|g| g.0 == name).map(|g| g.1));
        }
        if rr.rtype == T_CNAME {
            if occupied.iter().any(|t| *t != T_CNAME) {
                out.push(st);
                return;
            }
        } else if occupied.contains(&T_CNAME) {
            out.push(st);
            return;
        }
        if rr.rtype == T_SOA {
            // "if (!zone_rrset<rr.name, SOA> || zone_rr<rr.name, SOA>.serial > rr.soa.serial) next"
            let cur = st.zone.rrset(&name, T_SOA);
            let Some((cur_rd, _)) = cur.iter().next() else {
                if quirks.contains(&Quirk::SoaNonApexInserted) && !st.zone.is_apex(&name) {
                    st.zone.rrs.insert((name.clone(), T_SOA, rr.rdata.clone()), rr.ttl);
                    st.ghosts.remove(&(name.clone(), T_SOA));
                    st.changed = true;
                }
                out.push(st);
                return;
            };
            let (Some(zs), Some(us)) = (soa_serial(cur_rd), soa_serial(&rr.rdata)) else {
                // malformed SOA RDATA in the update: not generated
                out.push(st);
                return;
            };
            let replace = |mut st: ApplyState, tag: &'static str, out: &mut Vec<ApplyState>| {
                let old = st.zone.rrset(&name, T_SOA);
                let (old_rd, old_ttl) = old.iter().next().map(|(r, t)| (r.clone(), *t)).unwrap();
                if old_rd != rr.rdata || old_ttl != rr.ttl {
                    st.changed = true;
                }
                st.zone.rrs.remove(&(name.clone(), T_SOA, old_rd));
                st.zone.rrs.insert((name.clone(), T_SOA, rr.rdata.clone()), rr.ttl);
                if !tag.is_empty() {
                    st.branches.push(tag);
                }
                out.push(st);
            };
            if quirks.contains(&Quirk::SoaPlainCompare) {
                if us > zs {
                    replace(st, "", out);
                } else {
                    out.push(st);
                }
                return;
            }
            match serial_cmp(zs, us) {
                SerialOrd::Greater => out.push(st), // zone serial > update serial: ignored
                SerialOrd::Less => replace(st, "", out),
                SerialOrd::Equal => {
                    // text: ignored; pseudocode: replaced
                    let mut a = st.clone();
                    a.branches.push("soa-equal-serial-ignored");
                    out.push(a);
                    replace(st, "soa-equal-serial-replaced", out);
                }
                SerialOrd::Undefined => {
                    // exactly 2^31 apart: RFC 1982 leaves the comparison itself open, but a
                    // replacement cannot satisfy the rest of the property (the serial would not
                    // have advanced over the one the zone had: after the server's own increment
                    // it is RFC 1982-*smaller*), so only "ignored" is an acceptable outcome
                    st.branches.push("soa-rfc1982-undefined-ignored");
                    out.push(st);
                }
            }
            return;
        }
        // "for zrr in zone_rrset<rr.name, rr.type>: if (rr.type == CNAME || rr.type == SOA || ...
        //  rr.rdata == zrr.rdata) zrr = rr; next [rr]"
        let set = st.zone.rrset(&name, rr.rtype);
        if rr.rtype == T_CNAME {
            if let Some((old_rd, old_ttl)) = set.iter().next().map(|(r, t)| (r.clone(), *t)) {
                if old_rd != rr.rdata || old_ttl != rr.ttl || quirks.contains(&Quirk::IdenticalCnameCountsAsChange) {
                    st.changed = true;
                }
                st.zone.rrs.remove(&(name.clone(), T_CNAME, old_rd));
                st.zone.rrs.insert((name.clone(), T_CNAME, rr.rdata.clone()), rr.ttl);
                out.push(st);
                return;
            }
        } else if let Some(old_ttl) = set.get(&rr.rdata) {
            if *old_ttl != rr.ttl && !quirks.contains(&Quirk::DupRdataTtlIgnored) {
                st.changed = true;
                st.zone.rrs.insert((name.clone(), rr.rtype, rr.rdata.clone()), rr.ttl);
            }
            out.push(st);
            return;
        }
        // "zone_rrset<rr.name, rr.type> += rr"
        st.zone.rrs.insert((name.clone(), rr.rtype, rr.rdata.clone()), rr.ttl);
        st.ghosts.remove(&(name.clone(), rr.rtype));
        st.changed = true;
        out.push(st);
    } else if rr.class == C_ANY {
        if rr.rtype == T_ANY {
            let apex = st.zone.is_apex(&name);
            let keep_soa_ns = if quirks.contains(&Quirk::AnyAnyKeepsNonApexSoaNs) { !apex } else { apex };
            let victims: Vec<RrId> = st
                .zone
                .rrs
                .keys()
                .filter(|k| k.0 == name && !(keep_soa_ns && (k.1 == T_SOA || k.1 == T_NS)))
                .cloned()
                .collect();
            if !victims.is_empty() {
                st.changed = true;
            }
            for v in victims {
                st.zone.rrs.remove(&v);
            }
            if ghost_q {
                let g: Vec<_> = st.ghosts.iter().filter(|g| g.0 == name && !(keep_soa_ns && (g.1 == T_SOA || g.1 == T_NS))).cloned().collect();
                if !g.is_empty() {
                    st.changed = true;
                }
                for x in g {
                    st.ghosts.remove(&x);
                }
            }
            out.push(st);
        } else if st.zone.is_apex(&name) && (rr.rtype == T_SOA || rr.rtype == T_NS) {
            out.push(st);
        } else {
            let victims: Vec<RrId> = st.zone.rrs.keys().filter(|k| k.0 == name && k.1 == rr.rtype).cloned().collect();
            if !victims.is_empty() {
                st.changed = true;
            }
            for v in victims {
                st.zone.rrs.remove(&v);
            }
            if ghost_q && st.ghosts.remove(&(name.clone(), rr.rtype)) {
                st.changed = true;
            }
            out.push(st);
        }
    } else if rr.class == C_NONE {
        if rr.rtype == T_SOA {
            out.push(st);
            return;
        }
        if rr.rtype == T_NS {
            let set = st.zone.rrset(&name, T_NS);
            if set.len() == 1 && set.contains_key(&rr.rdata) {
                if st.zone.is_apex(&name) {
                    out.push(st);
                    return;
                }
                // text (apex only) vs pseudocode (any name)
                let mut a = st.clone();
                a.branches.push("last-non-apex-ns-kept");
                out.push(a);
                st.branches.push("last-non-apex-ns-deleted");
            }
        }
        if st.zone.rrs.remove(&(name.clone(), rr.rtype, rr.rdata.clone())).is_some() {
            st.changed = true;
            if st.zone.rrset(&name, rr.rtype).is_empty() {
                st.emptied.insert((name.clone(), rr.rtype));
                if ghost_q {
                    st.ghosts.insert((name.clone(), rr.rtype));
                }
            }
        }
        out.push(st);
    } else {
        // unreachable after prescan
        out.push(st);
    }
}

/// Run one UPDATE message against `zone`: every acceptable outcome.
pub fn step(zone: &Zone, msg: &UMsg, quirks: &Quirks) -> StepResult {
    step_g(zone, &BTreeSet::new(), msg, quirks)
}

/// `step` for an implementation that still holds the empty RRset objects `ghosts` from earlier
/// messages; they matter only under the quirks that give them an effect
pub fn step_g(zone: &Zone, ghosts: &BTreeSet<(Labels, u16)>, msg: &UMsg, quirks: &Quirks) -> StepResult {
    let rejected = |rcode: u8| Outcome {
        accept: false,
        rcode,
        zone: zone.clone(),
        changed: false,
        emptied: BTreeSet::new(),
        branches: vec![],
    };
    let mut prereq_unpredictable = false;
    match prerequisites_g(zone, ghosts, &msg.prereqs, quirks) {
        Ok(Ok(())) => {}
        Ok(Err(rc)) => {
            return StepResult {
                outcomes: vec![rejected(rc)],
                stage: "prereq",
            }
        }
        Err(()) => prereq_unpredictable = true,
    }
    let mut outcomes = Vec::new();
    if prereq_unpredictable {
        let mut o = rejected(RC_NXRRSET);
        o.branches.push("prereq-unpredictable-rejected");
        outcomes.push(o);
    }
    if let Err(rc) = prescan(zone, &msg.updates) {
        outcomes.push(rejected(rc));
        return StepResult {
            outcomes,
            stage: "prescan",
        };
    }
    // class = zone add with empty RDATA: not a row of table 3.4.2.6; refusing is acceptable too
    let empty_add = msg.updates.iter().any(|r| r.class == zone.class && r.rdata.is_empty());
    if empty_add {
        let mut o = rejected(RC_FORMERR);
        o.branches.push("empty-rdata-add-refused");
        outcomes.push(o);
    }
    for st in apply(zone, ghosts, &msg.updates, quirks) {
        let mut branches = st.branches;
        if empty_add {
            branches.push("empty-rdata-add-literal");
        }
        if prereq_unpredictable {
            branches.push("prereq-unpredictable-passed");
        }
        outcomes.push(Outcome {
            accept: true,
            rcode: RC_NOERROR,
            zone: st.zone,
            changed: st.changed,
            emptied: st.emptied,
            branches,
        });
    }
    StepResult {
        outcomes,
        stage: "apply",
    }
}

#[derive(Clone, Debug)]
pub struct StepResult {
    pub outcomes: Vec<Outcome>,
    /// where the (first) outcome was decided: prereq / prescan / apply
    pub stage: &'static str,
}

/// zone well-formedness invariants the property names; returns a signature on violation
pub fn invariant_violation(zone: &Zone) -> Option<(&'static str, String)> {
    let soas: Vec<&RrId> = zone.rrs.keys().filter(|k| k.1 == T_SOA).collect();
    if soas.len() != 1 || soas[0].0 != zone.origin {
        return Some((
            "zone-soa-count",
            format!("{} SOA RRs at {:?}", soas.len(), soas.iter().map(|k| canon::show(&k.0)).collect::<Vec<_>>()),
        ));
    }
    if zone.rrset(&zone.origin, T_NS).is_empty() {
        return Some(("zone-no-apex-ns", "no NS RR left at the apex".into()));
    }
    for n in zone.names() {
        let types = zone.types_at(&n);
        if types.contains(&T_CNAME) && types.len() > 1 {
            return Some(("zone-cname-beside-other-data", format!("{} holds {:?}", canon::show(&n), types)));
        }
        if zone.rrset(&n, T_CNAME).len() > 1 {
            return Some(("zone-multiple-cname", format!("{} holds several CNAME RRs", canon::show(&n))));
        }
    }
    None
}

#[cfg(test)]
mod tests {
    use super::*;

    #[test]
    fn serial_arith() {
        assert_eq!(serial_cmp(1, 2), SerialOrd::Less);
        assert_eq!(serial_cmp(u32::MAX, 0), SerialOrd::Less);
        assert_eq!(serial_cmp(0, u32::MAX), SerialOrd::Greater);
        assert_eq!(serial_cmp(0, 1 << 31), SerialOrd::Undefined);
        assert!(serial_gt(0, u32::MAX));
        assert!(!serial_gt(5, 5));
    }
}
