//! Interposed `clock_gettime`: identity by default; while a simulation on *this thread* has
//! switched to virtual mode, CLOCK_MONOTONIC / BOOTTIME / REALTIME follow the simulation's
//! virtual time. std::time::Instant, SystemTime, moka and tokio's clock all go through this
//! symbol, so everything a simulated run observes agrees with the simulator.

use std::cell::Cell;

thread_local! {
    /// virtual nanoseconds since simulation start, or u64::MAX when in identity mode
    static VIRT_NANOS: Cell<u64> = const { Cell::new(u64::MAX) };
    /// virtual unix time (seconds) at simulation start
    static VIRT_UNIX_BASE: Cell<u64> = const { Cell::new(0) };
}

/// monotonic base so that Instant arithmetic (checked_sub of large durations) stays in range
const MONO_BASE_SECS: i64 = 10_000_000;

pub fn enter_virtual(unix_base_secs: u64) {
    VIRT_UNIX_BASE.with(|b| b.set(unix_base_secs));
    VIRT_NANOS.with(|v| v.set(0));
}

pub fn leave_virtual() {
    VIRT_NANOS.with(|v| v.set(u64::MAX));
}

pub fn is_virtual() -> bool {
    VIRT_NANOS.with(|v| v.get() != u64::MAX)
}

pub fn virtual_nanos() -> u64 {
    VIRT_NANOS.with(|v| v.get())
}

pub fn set_virtual_nanos(n: u64) {
    VIRT_NANOS.with(|v| {
        debug_assert!(v.get() != u64::MAX, "not in virtual mode");
        v.set(n)
    });
}

pub fn advance_virtual(d: std::time::Duration) {
    VIRT_NANOS.with(|v| v.set(v.get() + d.as_nanos() as u64));
}

/// virtual unix seconds (what `Time::current_time()` must return inside a simulation)
pub fn virtual_unix_secs() -> u64 {
    VIRT_UNIX_BASE.with(|b| b.get()) + virtual_nanos() / 1_000_000_000
}

/// RAII guard: virtual mode for the duration of a case
pub struct VirtualClock;

impl VirtualClock {
    pub fn start(unix_base_secs: u64) -> Self {
        enter_virtual(unix_base_secs);
        VirtualClock
    }
}

impl Drop for VirtualClock {
    fn drop(&mut self) {
        leave_virtual();
    }
}

/// What the interposed `clock_gettime` must report for `clk` on this thread, or None to fall
/// through to the real clock.
pub fn virtual_timespec(clk: libc::clockid_t) -> Option<(i64, i64)> {
    let virt = VIRT_NANOS.try_with(|v| v.get()).unwrap_or(u64::MAX);
    if virt == u64::MAX {
        return None;
    }
    match clk {
        libc::CLOCK_MONOTONIC | libc::CLOCK_BOOTTIME | libc::CLOCK_MONOTONIC_RAW | libc::CLOCK_MONOTONIC_COARSE => {
            Some((MONO_BASE_SECS + (virt / 1_000_000_000) as i64, (virt % 1_000_000_000) as i64))
        }
        libc::CLOCK_REALTIME | libc::CLOCK_REALTIME_COARSE => {
            let base = VIRT_UNIX_BASE.try_with(|b| b.get()).unwrap_or(0);
            Some((base as i64 + (virt / 1_000_000_000) as i64, (virt % 1_000_000_000) as i64))
        }
        _ => None,
    }
}
