//! vcheck library: engine, generators, reference models, simulated runtime, checks.
//! The binary (main.rs) adds the `clock_gettime` interposer and the CLI; the fuzz crate links
//! this library without the interposer.
#![allow(clippy::type_complexity)]

#[macro_use]
pub mod core;
pub mod checks;
pub mod clock;
pub mod detrand;
pub mod gen;
pub mod refm;
pub mod sim;
