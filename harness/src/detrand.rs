//! Interposed `getrandom(2)`: identity by default; while a check on *this thread* has switched
//! to deterministic mode, the bytes come from a SplitMix64 stream seeded by the case. hickory
//! seeds its per-thread `rand::rng()` (initial SRTT of a name server, query ids, source ports,
//! 0x20 case randomisation) from the OS through this symbol — the `getrandom` crate looks it up
//! with `dlsym(RTLD_DEFAULT, "getrandom")`, so build.rs exports it from the executable — and
//! `enter()` forces that generator to reseed, which makes a simulated run a function of its case.

use std::cell::Cell;

thread_local! {
    /// 0 = identity mode, anything else = SplitMix64 state
    static DET: Cell<u64> = const { Cell::new(0) };
}

fn next(state: &mut u64) -> u64 {
    *state = state.wrapping_add(0x9e37_79b9_7f4a_7c15);
    let mut z = *state;
    z = (z ^ (z >> 30)).wrapping_mul(0xbf58_476d_1ce4_e5b9);
    z = (z ^ (z >> 27)).wrapping_mul(0x94d0_49bb_1331_11eb);
    z ^ (z >> 31)
}

/// Fill `buf` from this thread's deterministic stream; false when in identity mode (the caller
/// then falls through to the real syscall). Called by the interposed `getrandom` in main.rs.
///
/// # Safety
/// `buf` points to `len` writable bytes.
pub unsafe fn fill(buf: *mut libc::c_void, len: libc::size_t) -> bool {
    let st = DET.try_with(|d| d.get()).unwrap_or(0);
    if st != 0 && !buf.is_null() && len > 0 {
        let mut st = st;
        let out = std::slice::from_raw_parts_mut(buf as *mut u8, len);
        for chunk in out.chunks_mut(8) {
            let v = next(&mut st).to_le_bytes();
            chunk.copy_from_slice(&v[..chunk.len()]);
        }
        let _ = DET.try_with(|d| d.set(if st == 0 { 1 } else { st }));
        return true;
    }
    false
}

/// RAII guard: deterministic OS randomness on this thread for the duration of a case
pub struct DetRand;

impl DetRand {
    pub fn start(seed: u64) -> Self {
        DET.with(|d| d.set(seed | 1));
        // hickory's generator (rand 0.10 ThreadRng) picks the new stream up from here
        let _ = rand::rng().reseed();
        DetRand
    }
}

impl Drop for DetRand {
    fn drop(&mut self) {
        let _ = DET.try_with(|d| d.set(0));
        let _ = rand::rng().reseed();
    }
}
