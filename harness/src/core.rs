//! Engine shared by all checks: seeding, sharded proptest runner, small-scope enumerator,
//! distinct / non-trivial accounting, class histograms, evidence writer, replay files,
//! panic capture, hang monitor, known-finding matcher.

use std::cell::{Cell, RefCell};
use std::collections::{BTreeMap, HashSet};
use std::fmt::Debug;
use std::hash::{Hash, Hasher};
use std::panic::{self, AssertUnwindSafe};
use std::path::{Path, PathBuf};
use std::sync::atomic::{AtomicBool, AtomicU64, Ordering};
use std::sync::{Arc, Mutex};
use std::time::Duration;

use proptest::strategy::Strategy;
use proptest::test_runner::{Config, RngAlgorithm, TestCaseError, TestError, TestRng, TestRunner};
use serde::{de::DeserializeOwned, Deserialize, Serialize};
use serde_json::{json, Value};

pub const SHARDS: usize = 16;
/// root of the verification tree (evidence/, replays/, known_findings.json); VERIF_DIR overrides
pub fn verif_dir() -> String {
    std::env::var("VERIF_DIR").unwrap_or_else(|_| "/verif".to_string())
}

pub fn vpath(rel: &str) -> String {
    format!("{}/{}", verif_dir(), rel)
}

// ------------------------------------------------------------------------------------------
// real (non-interposed) monotonic clock: the harness binary interposes clock_gettime for the
// simulated runtime, so the engine's own timing goes to the raw syscall.

pub fn real_nanos() -> u64 {
    let mut ts = libc::timespec {
        tv_sec: 0,
        tv_nsec: 0,
    };
    // SAFETY: plain syscall with a valid out-pointer.
    unsafe {
        libc::syscall(
            libc::SYS_clock_gettime,
            libc::CLOCK_MONOTONIC as libc::c_long,
            &mut ts as *mut libc::timespec,
        );
    }
    (ts.tv_sec as u64) * 1_000_000_000 + ts.tv_nsec as u64
}

/// CPU time consumed by the thread that owns `clockid` (pthread_getcpuclockid); immune to the
/// whole process or VM being frozen, unlike wall time
pub fn cpu_nanos(clockid: libc::clockid_t) -> u64 {
    let mut ts = libc::timespec { tv_sec: 0, tv_nsec: 0 };
    // SAFETY: plain syscall with a valid out-pointer (the interposed clock_gettime is bypassed).
    unsafe {
        libc::syscall(libc::SYS_clock_gettime, clockid as libc::c_long, &mut ts as *mut libc::timespec);
    }
    (ts.tv_sec as u64) * 1_000_000_000 + ts.tv_nsec as u64
}

pub fn this_thread_cpu_clock() -> libc::clockid_t {
    let mut cid: libc::clockid_t = 0;
    // SAFETY: pthread_self is always valid for the calling thread.
    unsafe {
        libc::pthread_getcpuclockid(libc::pthread_self(), &mut cid);
    }
    cid
}

// ------------------------------------------------------------------------------------------

#[derive(Clone, Copy, Debug, PartialEq, Eq)]
pub enum Tier {
    Quick,
    Thorough,
}

impl Tier {
    pub fn as_str(self) -> &'static str {
        match self {
            Tier::Quick => "quick",
            Tier::Thorough => "thorough",
        }
    }
    /// pick a case count by tier
    pub fn pick(self, quick: u64, thorough: u64) -> u64 {
        match self {
            Tier::Quick => quick,
            Tier::Thorough => thorough,
        }
    }
}

/// A deviation from the property, with a *signature* narrow enough to name one root cause.
#[derive(Clone, Debug, Serialize, Deserialize)]
pub struct Fail {
    pub sig: String,
    pub msg: String,
}

impl Fail {
    pub fn new(sig: impl Into<String>, msg: impl Into<String>) -> Self {
        Self {
            sig: sig.into(),
            msg: msg.into(),
        }
    }
}

#[macro_export]
macro_rules! vfail {
    ($sig:expr, $($arg:tt)*) => {
        return Err($crate::core::Fail::new($sig, format!($($arg)*)))
    };
}

#[macro_export]
macro_rules! vensure {
    ($cond:expr, $sig:expr, $($arg:tt)*) => {
        if !($cond) {
            return Err($crate::core::Fail::new($sig, format!($($arg)*)));
        }
    };
}

pub type CaseResult = Result<(), Fail>;

/// Per-case recorder handed to every property body.
#[derive(Default)]
pub struct Rec {
    classes: Vec<String>,
    nontrivial: bool,
    discard: Option<String>,
    note: Option<String>,
    counters: Vec<(String, u64)>,
    /// true when replaying a single saved case (known-finding exclusion is off)
    pub strict: bool,
}

impl Rec {
    pub fn class(&mut self, c: impl Into<String>) {
        self.classes.push(c.into());
    }
    pub fn nontrivial(&mut self) {
        self.nontrivial = true;
    }
    pub fn set_nontrivial(&mut self, b: bool) {
        self.nontrivial = b;
    }
    /// the oracle declares the case out of the property's domain (counted, with reason)
    pub fn discard(&mut self, reason: impl Into<String>) {
        self.discard = Some(reason.into());
    }
    /// readable rendering of the case for the evidence samples
    pub fn note(&mut self, s: impl Into<String>) {
        self.note = Some(s.into());
    }
    pub fn wants_note(&self) -> bool {
        self.note.is_none()
    }
    /// free-form counter, summed over the run and reported under coverage.counters
    pub fn count(&mut self, key: impl Into<String>, n: u64) {
        self.counters.push((key.into(), n));
    }
}

#[derive(Clone, Debug, Serialize, Deserialize)]
pub struct KnownFinding {
    pub property: String,
    /// "known" or "fixed"
    pub status: String,
    pub signature: String,
    #[serde(default)]
    pub what: String,
    #[serde(default)]
    pub commit: Option<String>,
    #[serde(default)]
    pub replay: Option<String>,
    #[serde(default)]
    pub line: Option<String>,
}

#[derive(Clone, Debug, Default, Deserialize)]
pub struct KnownFile {
    #[serde(default)]
    pub findings: Vec<KnownFinding>,
}

pub struct Env {
    pub prop: &'static str,
    pub tier: Tier,
    pub seed: u64,
    pub known_sigs: Vec<String>,
    pub strict: bool,
    pub threads: usize,
    pub only_sub: Option<String>,
    pub scale: f64,
}

impl Env {
    pub fn is_known(&self, sig: &str) -> bool {
        !self.strict && self.known_sigs.iter().any(|s| s == sig)
    }
    pub fn cases(&self, quick: u64, thorough: u64) -> u64 {
        ((self.tier.pick(quick, thorough) as f64) * self.scale).ceil() as u64
    }
}

#[derive(Default)]
pub struct Stats {
    pub evaluations: u64,
    pub nt: HashSet<u64>,
    pub classes: BTreeMap<String, u64>,
    pub discarded: BTreeMap<String, u64>,
    pub excluded_known: BTreeMap<String, u64>,
    pub known_examples: BTreeMap<String, Value>,
    pub samples: Vec<Value>,
    pub exhaustive: Option<bool>,
    pub counters: BTreeMap<String, u64>,
    pub extra: BTreeMap<String, Value>,
}

impl Stats {
    fn merge(&mut self, o: Stats, max_samples: usize) {
        self.evaluations += o.evaluations;
        self.nt.extend(o.nt);
        for (k, v) in o.classes {
            *self.classes.entry(k).or_default() += v;
        }
        for (k, v) in o.discarded {
            *self.discarded.entry(k).or_default() += v;
        }
        for (k, v) in o.counters {
            *self.counters.entry(k).or_default() += v;
        }
        for (k, v) in o.excluded_known {
            *self.excluded_known.entry(k).or_default() += v;
        }
        for (k, v) in o.known_examples {
            self.known_examples.entry(k).or_insert(v);
        }
        for s in o.samples {
            if self.samples.len() < max_samples {
                self.samples.push(s);
            }
        }
        for (k, v) in o.extra {
            self.extra.insert(k, v);
        }
    }
}

#[derive(Clone, Debug)]
pub struct ViolationRec {
    pub sub: String,
    pub fail: Fail,
    pub case: Value,
}

pub struct SubOutcome {
    pub name: String,
    pub stats: Stats,
    pub violations: Vec<ViolationRec>,
    pub wall_s: f64,
}

pub trait Sub: Send + Sync {
    fn name(&self) -> &str;
    fn run(&self, env: &Env) -> SubOutcome;
    /// run one saved case through the same oracle, no generator involved
    fn replay(&self, case: &Value, env: &Env) -> Result<CaseResult, String>;
}

// ------------------------------------------------------------------------------------------
// panic capture

thread_local! {
    static LAST_PANIC: RefCell<Option<(String, String)>> = const { RefCell::new(None) };
    static IN_BODY: Cell<bool> = const { Cell::new(false) };
}

pub fn install_panic_hook() {
    let default = panic::take_hook();
    panic::set_hook(Box::new(move |info| {
        let in_body = IN_BODY.try_with(|b| b.get()).unwrap_or(false);
        if in_body {
            let msg = if let Some(s) = info.payload().downcast_ref::<&str>() {
                (*s).to_string()
            } else if let Some(s) = info.payload().downcast_ref::<String>() {
                s.clone()
            } else {
                "<non-string panic payload>".to_string()
            };
            let loc = info
                .location()
                .map(|l| format!("{}:{}", l.file(), l.line()))
                .unwrap_or_else(|| "<unknown>".into());
            let _ = LAST_PANIC.try_with(|p| *p.borrow_mut() = Some((msg, loc)));
        } else {
            default(info);
        }
    }));
}

fn panic_sig(msg: &str, loc: &str) -> String {
    // file without line number (lines shift with unrelated edits) + normalised message head
    let file = loc.rsplit_once(':').map(|(f, _)| f).unwrap_or(loc);
    let file = file.rsplit("/crates/").next().unwrap_or(file);
    let file = file.trim_start_matches("/repo/");
    let mut head = String::new();
    for ch in msg.chars().take(48) {
        if ch.is_ascii_digit() {
            if !head.ends_with('N') {
                head.push('N');
            }
        } else if ch.is_ascii_alphanumeric() {
            head.push(ch);
        } else if !head.ends_with('-') {
            head.push('-');
        }
    }
    format!("panic:{}:{}", file, head.trim_matches('-'))
}

/// Run a closure with panics turned into `Fail`s (signature `panic:<file>:<message head>`).
pub fn guard<R>(f: impl FnOnce() -> Result<R, Fail>) -> Result<R, Fail> {
    let prev = IN_BODY.with(|b| b.replace(true));
    let r = panic::catch_unwind(AssertUnwindSafe(f));
    IN_BODY.with(|b| b.set(prev));
    match r {
        Ok(r) => r,
        Err(_) => {
            let (msg, loc) = LAST_PANIC
                .with(|p| p.borrow_mut().take())
                .unwrap_or_else(|| ("<no message>".into(), "<unknown>".into()));
            Err(Fail::new(
                panic_sig(&msg, &loc),
                format!("panic at {loc}: {msg}"),
            ))
        }
    }
}

/// Like `guard` but for code under test whose panic must be told apart from harness bugs:
/// returns Err((message, location)) on panic.
pub fn catch<R>(f: impl FnOnce() -> R) -> Result<R, (String, String)> {
    let prev = IN_BODY.with(|b| b.replace(true));
    let r = panic::catch_unwind(AssertUnwindSafe(f));
    IN_BODY.with(|b| b.set(prev));
    match r {
        Ok(r) => Ok(r),
        Err(_) => Err(LAST_PANIC
            .with(|p| p.borrow_mut().take())
            .unwrap_or_else(|| ("<no message>".into(), "<unknown>".into()))),
    }
}

pub fn panic_fail(p: &(String, String)) -> Fail {
    Fail::new(panic_sig(&p.0, &p.1), format!("panic at {}: {}", p.1, p.0))
}

// ------------------------------------------------------------------------------------------
// hashing / seeds

pub fn fixed_hash(parts: &[&[u8]]) -> u64 {
    // FNV-1a 64 followed by a finaliser; stable across runs and platforms
    let mut h: u64 = 0xcbf29ce484222325;
    for p in parts {
        for b in *p {
            h ^= *b as u64;
            h = h.wrapping_mul(0x100000001b3);
        }
        h ^= 0xff;
        h = h.wrapping_mul(0x100000001b3);
    }
    h ^= h >> 33;
    h = h.wrapping_mul(0xff51afd7ed558ccd);
    h ^= h >> 33;
    h = h.wrapping_mul(0xc4ceb9fe1a85ec53);
    h ^= h >> 33;
    h
}

/// seed for `detrand::DetRand` derived from the case itself, so that the randomness hickory draws
/// (message ids, ports, 0x20 case, initial SRTTs) is a function of the case: shrinking and replay
/// then see the same values as the run that failed
pub fn det_seed<T: Serialize>(case: &T) -> u64 {
    let js = serde_json::to_string(case).unwrap_or_default();
    fixed_hash(&[b"detrand", js.as_bytes()])
}

pub fn hash_of<T: Hash>(t: &T) -> u64 {
    #[allow(deprecated)]
    let mut h = std::hash::SipHasher::new_with_keys(0x7665_7269, 0x6663_6865);
    t.hash(&mut h);
    h.finish()
}

fn shard_seed(env: &Env, sub: &str, shard: usize) -> [u8; 32] {
    let mut out = [0u8; 32];
    for i in 0..4u64 {
        let h = fixed_hash(&[
            &env.seed.to_le_bytes(),
            env.prop.as_bytes(),
            sub.as_bytes(),
            &(shard as u64).to_le_bytes(),
            &i.to_le_bytes(),
        ]);
        out[(i as usize) * 8..(i as usize) * 8 + 8].copy_from_slice(&h.to_le_bytes());
    }
    out
}

// ------------------------------------------------------------------------------------------
// hang monitor

struct HangSlot {
    /// CPU clock of the shard thread currently using this slot (0 = none yet)
    clockid: std::sync::atomic::AtomicI32,
    started: AtomicU64, // thread CPU nanos at case start (+1); 0 = idle
    case: Mutex<Option<Box<dyn Fn() -> Value + Send>>>,
}

struct HangMonitor {
    slots: Vec<Arc<HangSlot>>,
    stop: Arc<AtomicBool>,
    handle: Option<std::thread::JoinHandle<()>>,
}

impl HangMonitor {
    fn start(prop: &'static str, sub: String, n: usize, budget: Duration) -> Self {
        let slots: Vec<Arc<HangSlot>> = (0..n)
            .map(|_| {
                Arc::new(HangSlot {
                    clockid: std::sync::atomic::AtomicI32::new(0),
                    started: AtomicU64::new(0),
                    case: Mutex::new(None),
                })
            })
            .collect();
        let stop = Arc::new(AtomicBool::new(false));
        let s2 = slots.clone();
        let st2 = stop.clone();
        let handle = std::thread::spawn(move || {
            while !st2.load(Ordering::Relaxed) {
                std::thread::sleep(Duration::from_millis(250));
                for s in &s2 {
                    let st = s.started.load(Ordering::Acquire);
                    let cid = s.clockid.load(Ordering::Acquire);
                    if st == 0 || cid == 0 {
                        continue;
                    }
                    // budget is CPU time of the shard thread inside the case: a frozen process or a
                    // descheduled thread does not count, a spinning case does
                    let now = cpu_nanos(cid) + 1;
                    if now.saturating_sub(st) > budget.as_nanos() as u64 {
                        let case = s
                            .case
                            .lock()
                            .ok()
                            .and_then(|g| g.as_ref().map(|f| f()))
                            .unwrap_or(Value::Null);
                        let fail = Fail::new(
                            "hang",
                            format!(
                                "case still running after {:.1}s of CPU time (budget {:.1}s): non-termination or super-linear work",
                                now.saturating_sub(st) as f64 / 1e9,
                                budget.as_secs_f64()
                            ),
                        );
                        let path = write_replay(prop, &sub, &fail, &case, None);
                        println!("VIOLATION property={} replay={}", prop, path.display());
                        println!("  sub={} sig={} {}", sub, fail.sig, fail.msg);
                        // best effort evidence so that the run is not without a file
                        let _ = write_evidence_hang(prop, &sub, &fail);
                        std::process::exit(1);
                    }
                }
            }
        });
        Self {
            slots,
            stop,
            handle: Some(handle),
        }
    }
}

impl Drop for HangMonitor {
    fn drop(&mut self) {
        self.stop.store(true, Ordering::Relaxed);
        if let Some(h) = self.handle.take() {
            let _ = h.join();
        }
    }
}

fn write_evidence_hang(prop: &str, sub: &str, fail: &Fail) -> std::io::Result<()> {
    let ev = json!({
        "property_id": prop, "tier": "quick", "seed": 0, "level": "exploration",
        "coverage": {"evaluations": 1, "distinct_nontrivial": 0, "rule": "aborted: hang detected",
                     "samples": [format!("{sub}: {}", fail.msg)]},
        "wall_s": 0.0, "violations": 1
    });
    std::fs::create_dir_all(vpath(&format!("evidence")))?;
    std::fs::write(
        vpath(&format!("evidence/{prop}.json")),
        serde_json::to_vec_pretty(&ev).unwrap(),
    )
}

// ------------------------------------------------------------------------------------------
// replay files

pub fn write_replay(prop: &str, sub: &str, fail: &Fail, case: &Value, dir: Option<&Path>) -> PathBuf {
    let dir = dir
        .map(|d| d.to_path_buf())
        .unwrap_or_else(|| PathBuf::from(vpath(&format!("replays/{prop}/found"))));
    let _ = std::fs::create_dir_all(&dir);
    let body = serde_json::to_string(case).unwrap_or_default();
    let h = fixed_hash(&[sub.as_bytes(), fail.sig.as_bytes(), body.as_bytes()]);
    let sigfile: String = fail
        .sig
        .chars()
        .map(|c| if c.is_ascii_alphanumeric() || c == '-' || c == '_' { c } else { '_' })
        .take(60)
        .collect();
    let path = dir.join(format!("{sub}-{sigfile}-{:08x}.json", h as u32));
    let doc = json!({
        "property": prop,
        "sub": sub,
        "signature": fail.sig,
        "message": fail.msg,
        "expect": "violation",
        "case": case,
    });
    let _ = std::fs::write(&path, serde_json::to_vec_pretty(&doc).unwrap());
    path
}

// ------------------------------------------------------------------------------------------
// the proptest-driven sub-property

pub struct PropSub<T, S, F> {
    pub name: &'static str,
    pub quick: u64,
    pub thorough: u64,
    pub strategy: Box<dyn Fn(Tier) -> S + Send + Sync>,
    pub body: F,
    pub hang_budget: Option<Duration>,
    pub max_shrink_iters: u32,
    pub _t: std::marker::PhantomData<fn() -> T>,
}

pub fn prop<T, S, F>(
    name: &'static str,
    quick: u64,
    thorough: u64,
    strategy: impl Fn(Tier) -> S + Send + Sync + 'static,
    body: F,
) -> Box<dyn Sub>
where
    T: Debug + Serialize + DeserializeOwned + Send + Sync + 'static,
    S: Strategy<Value = T> + 'static,
    F: Fn(&T, &mut Rec) -> CaseResult + Send + Sync + 'static,
{
    Box::new(PropSub {
        name,
        quick,
        thorough,
        strategy: Box::new(strategy),
        body,
        hang_budget: None,
        max_shrink_iters: 2000,
        _t: std::marker::PhantomData,
    })
}

pub fn prop_hang<T, S, F>(
    name: &'static str,
    quick: u64,
    thorough: u64,
    budget: Duration,
    strategy: impl Fn(Tier) -> S + Send + Sync + 'static,
    body: F,
) -> Box<dyn Sub>
where
    T: Debug + Serialize + DeserializeOwned + Send + Sync + 'static,
    S: Strategy<Value = T> + 'static,
    F: Fn(&T, &mut Rec) -> CaseResult + Send + Sync + 'static,
{
    Box::new(PropSub {
        name,
        quick,
        thorough,
        strategy: Box::new(strategy),
        body,
        hang_budget: Some(budget),
        max_shrink_iters: 600,
        _t: std::marker::PhantomData,
    })
}

fn render_sample(sub: &str, note: Option<String>, case_json: impl FnOnce() -> String) -> Value {
    let mut s = note.unwrap_or_else(case_json);
    if s.len() > 900 {
        let mut cut = 900;
        while !s.is_char_boundary(cut) {
            cut -= 1;
        }
        s.truncate(cut);
        s.push_str(" …");
    }
    json!({"sub": sub, "case": s})
}

/// Evaluate one case: body under panic guard, accounting into `stats`, known-finding exclusion.
fn eval_case<T: Serialize>(
    sub: &str,
    env: &Env,
    case: &T,
    body: &(impl Fn(&T, &mut Rec) -> CaseResult + ?Sized),
    stats: Option<&RefCell<Stats>>,
    max_samples: usize,
) -> CaseResult {
    let mut rec = Rec {
        strict: env.strict,
        ..Default::default()
    };
    let res = guard(|| body(case, &mut rec));
    let res = match res {
        Err(f) if env.is_known(&f.sig) => {
            if let Some(st) = stats {
                let mut st = st.borrow_mut();
                *st.excluded_known.entry(f.sig.clone()).or_default() += 1;
                if !st.known_examples.contains_key(&f.sig) {
                    st.known_examples.insert(
                        f.sig.clone(),
                        json!({"sub": sub, "message": f.msg, "case": serde_json::to_value(case).unwrap_or(Value::Null)}),
                    );
                }
            }
            Ok(())
        }
        r => r,
    };
    if let Some(st) = stats {
        let mut st = st.borrow_mut();
        st.evaluations += 1;
        for c in rec.classes.drain(..) {
            *st.classes.entry(format!("{sub}/{c}")).or_default() += 1;
        }
        for (k, n) in rec.counters.drain(..) {
            *st.counters.entry(format!("{sub}/{k}")).or_default() += n;
        }
        if let Some(d) = rec.discard.take() {
            *st.discarded.entry(format!("{sub}/{d}")).or_default() += 1;
        } else if rec.nontrivial {
            let js = serde_json::to_string(case).unwrap_or_default();
            let h = fixed_hash(&[sub.as_bytes(), js.as_bytes()]);
            let fresh = st.nt.insert(h);
            if fresh && st.samples.len() < max_samples {
                let note = rec.note.take();
                st.samples.push(render_sample(sub, note, || js));
            }
        }
    }
    res
}

impl<T, S, F> Sub for PropSub<T, S, F>
where
    T: Debug + Serialize + DeserializeOwned + Send + Sync + 'static,
    S: Strategy<Value = T> + 'static,
    F: Fn(&T, &mut Rec) -> CaseResult + Send + Sync + 'static,
{
    fn name(&self) -> &str {
        self.name
    }

    fn run(&self, env: &Env) -> SubOutcome {
        let t0 = real_nanos();
        let total = env.cases(self.quick, self.thorough);
        let monitor = self
            .hang_budget
            .map(|b| HangMonitor::start(env.prop, self.name.to_string(), SHARDS, b));
        let next = AtomicU64::new(0);
        let results: Mutex<Vec<(usize, Stats, Option<ViolationRec>)>> = Mutex::new(Vec::new());
        std::thread::scope(|scope| {
            for _ in 0..env.threads.min(SHARDS) {
                scope.spawn(|| loop {
                    let shard = next.fetch_add(1, Ordering::Relaxed) as usize;
                    if shard >= SHARDS {
                        break;
                    }
                    let cases = total / SHARDS as u64 + u64::from((shard as u64) < total % SHARDS as u64);
                    if cases == 0 {
                        continue;
                    }
                    let slot = monitor.as_ref().map(|m| m.slots[shard].clone());
                    let (stats, viol) = self.run_shard(env, shard, cases, slot);
                    results.lock().unwrap().push((shard, stats, viol));
                });
            }
        });
        drop(monitor);
        let mut res = results.into_inner().unwrap();
        res.sort_by_key(|r| r.0);
        let mut stats = Stats::default();
        let mut violations = Vec::new();
        for (_, s, v) in res {
            stats.merge(s, 3);
            if let Some(v) = v {
                if !violations.iter().any(|x: &ViolationRec| x.fail.sig == v.fail.sig) {
                    violations.push(v);
                }
            }
        }
        SubOutcome {
            name: self.name.to_string(),
            stats,
            violations,
            wall_s: (real_nanos() - t0) as f64 / 1e9,
        }
    }

    fn replay(&self, case: &Value, env: &Env) -> Result<CaseResult, String> {
        let case: T = serde_json::from_value(case.clone()).map_err(|e| format!("cannot decode case: {e}"))?;
        Ok(eval_case(self.name, env, &case, &self.body, None, 0))
    }
}

impl<T, S, F> PropSub<T, S, F>
where
    T: Debug + Serialize + DeserializeOwned + Send + Sync + 'static,
    S: Strategy<Value = T> + 'static,
    F: Fn(&T, &mut Rec) -> CaseResult + Send + Sync + 'static,
{
    fn run_shard(
        &self,
        env: &Env,
        shard: usize,
        cases: u64,
        slot: Option<Arc<HangSlot>>,
    ) -> (Stats, Option<ViolationRec>) {
        let config = Config {
            cases: cases as u32,
            failure_persistence: None,
            max_shrink_iters: self.max_shrink_iters,
            max_global_rejects: 1 << 20,
            max_local_rejects: 1 << 16,
            ..Config::default()
        };
        let rng = TestRng::from_seed(RngAlgorithm::ChaCha, &shard_seed(env, self.name, shard));
        let mut runner = TestRunner::new_with_rng(config, rng);
        let strategy = (self.strategy)(env.tier);
        let stats = RefCell::new(Stats::default());
        let failed = Cell::new(false);
        let result = runner.run(&strategy, |case: T| {
            let case = Arc::new(case);
            if let Some(slot) = &slot {
                let c2 = case.clone();
                *slot.case.lock().unwrap() =
                    Some(Box::new(move || serde_json::to_value(&*c2).unwrap_or(Value::Null)));
                slot.clockid.store(this_thread_cpu_clock(), Ordering::Release);
                slot.started.store(cpu_nanos(libc::CLOCK_THREAD_CPUTIME_ID) + 1, Ordering::Release);
            }
            let st = if failed.get() { None } else { Some(&stats) };
            let r = eval_case(self.name, env, &*case, &self.body, st, 2);
            if let Some(slot) = &slot {
                slot.started.store(0, Ordering::Release);
            }
            match r {
                Ok(()) => Ok(()),
                Err(f) => {
                    failed.set(true);
                    Err(TestCaseError::fail(f.sig))
                }
            }
        });
        let viol = match result {
            Ok(()) => None,
            Err(TestError::Fail(reason, minimal)) => {
                let mut strict_env_fail = eval_case(self.name, env, &minimal, &self.body, None, 0);
                if strict_env_fail.is_ok() {
                    // flaky or state-dependent (e.g. the code under test draws its own randomness:
                    // message ids, initial SRTTs): report with what we know, incl. the signature
                    // of the failure that was seen during the run
                    strict_env_fail = Err(Fail::new(
                        "nondeterministic",
                        format!("minimal case failed during the run (signature then: {reason}) but passed when re-evaluated"),
                    ));
                }
                Some(ViolationRec {
                    sub: self.name.to_string(),
                    fail: strict_env_fail.unwrap_err(),
                    case: serde_json::to_value(&minimal).unwrap_or(Value::Null),
                })
            }
            Err(TestError::Abort(reason)) => Some(ViolationRec {
                sub: self.name.to_string(),
                fail: Fail::new("harness-abort", format!("proptest aborted: {reason}")),
                case: Value::Null,
            }),
        };
        (stats.into_inner(), viol)
    }
}

// ------------------------------------------------------------------------------------------
// small-scope enumeration sub-property

pub struct EnumSub<T, F> {
    pub name: &'static str,
    /// produces the complete case list for the tier; `exhaustive` in the evidence is true
    /// iff the bool returned is true (the stated space was enumerated completely)
    pub gen: Box<dyn Fn(&Env) -> (Box<dyn Iterator<Item = T> + Send>, bool) + Send + Sync>,
    pub body: F,
}

pub fn enumerate<T, F>(
    name: &'static str,
    gen: impl Fn(&Env) -> (Box<dyn Iterator<Item = T> + Send>, bool) + Send + Sync + 'static,
    body: F,
) -> Box<dyn Sub>
where
    T: Debug + Serialize + DeserializeOwned + Send + Sync + 'static,
    F: Fn(&T, &mut Rec) -> CaseResult + Send + Sync + 'static,
{
    Box::new(EnumSub {
        name,
        gen: Box::new(gen),
        body,
    })
}

impl<T, F> Sub for EnumSub<T, F>
where
    T: Debug + Serialize + DeserializeOwned + Send + Sync + 'static,
    F: Fn(&T, &mut Rec) -> CaseResult + Send + Sync + 'static,
{
    fn name(&self) -> &str {
        self.name
    }

    fn run(&self, env: &Env) -> SubOutcome {
        let t0 = real_nanos();
        let nthreads = env.threads.max(1);
        let results: Mutex<Vec<(Stats, Option<ViolationRec>)>> = Mutex::new(Vec::new());
        let mut exhaustive = true;
        std::thread::scope(|scope| {
            for tid in 0..nthreads {
                let (iter, ex) = (self.gen)(env);
                exhaustive &= ex;
                let results = &results;
                scope.spawn(move || {
                    let stats = RefCell::new(Stats::default());
                    let mut viol = None;
                    for (i, case) in iter.enumerate() {
                        if i % nthreads != tid {
                            continue;
                        }
                        if let Err(f) = eval_case(self.name, env, &case, &self.body, Some(&stats), 2) {
                            viol = Some(ViolationRec {
                                sub: self.name.to_string(),
                                fail: f,
                                case: serde_json::to_value(&case).unwrap_or(Value::Null),
                            });
                            break;
                        }
                    }
                    results.lock().unwrap().push((stats.into_inner(), viol));
                });
            }
        });
        let mut stats = Stats::default();
        let mut violations: Vec<ViolationRec> = Vec::new();
        for (s, v) in results.into_inner().unwrap() {
            stats.merge(s, 3);
            if let Some(v) = v {
                if !violations.iter().any(|x| x.fail.sig == v.fail.sig) {
                    violations.push(v);
                }
            }
        }
        stats.exhaustive = Some(exhaustive && violations.is_empty());
        SubOutcome {
            name: self.name.to_string(),
            stats,
            violations,
            wall_s: (real_nanos() - t0) as f64 / 1e9,
        }
    }

    fn replay(&self, case: &Value, env: &Env) -> Result<CaseResult, String> {
        let case: T = serde_json::from_value(case.clone()).map_err(|e| format!("cannot decode case: {e}"))?;
        Ok(eval_case(self.name, env, &case, &self.body, None, 0))
    }
}

// ------------------------------------------------------------------------------------------
// coverage-guided fuzzing sub-property (libFuzzer through cargo-fuzz; thorough tier only).
// The semantic oracle lives in `oracle` and is the same function the fuzz target calls, so a
// crash artifact replays in-process through `./check <ID> --replay`.

pub struct FuzzSub {
    pub name: &'static str,
    /// cargo-fuzz target name in /verif/fuzz
    pub target: &'static str,
    pub runs_thorough: u64,
    pub max_len: u32,
    pub oracle: fn(&[u8]) -> CaseResult,
    /// structured seed inputs produced by the generators (written into the campaign corpus)
    pub seeds: fn() -> Vec<Vec<u8>>,
}

#[derive(Serialize, Deserialize)]
struct FuzzCase {
    #[serde(with = "hexser")]
    input: Vec<u8>,
}

pub fn known_signatures(prop: &str) -> Vec<String> {
    load_known(prop).into_iter().filter(|k| k.status == "known").map(|k| k.signature).collect()
}

/// what a fuzz target does with one input: run the oracle under the panic guard, tolerate known
/// findings (so the campaign continues behind them), abort on anything else
pub fn fuzz_target_entry(prop: &str, oracle: fn(&[u8]) -> CaseResult, data: &[u8]) {
    use std::sync::OnceLock;
    static KNOWN: OnceLock<Vec<String>> = OnceLock::new();
    static HOOK: OnceLock<()> = OnceLock::new();
    HOOK.get_or_init(install_panic_hook);
    let known = KNOWN.get_or_init(|| known_signatures(prop));
    if let Err(f) = guard(|| oracle(data)) {
        if known.iter().any(|k| *k == f.sig) {
            return;
        }
        eprintln!("FUZZ-VIOLATION property={prop} sig={} {}", f.sig, f.msg);
        std::process::abort();
    }
}

impl FuzzSub {
    fn corpus_dir(&self) -> PathBuf {
        PathBuf::from(vpath(&format!("corpus/{}", self.target)))
    }

    fn eval(&self, env: &Env, data: &[u8], stats: &mut Stats) -> Option<Fail> {
        stats.evaluations += 1;
        match guard(|| (self.oracle)(data)) {
            Ok(()) => {
                let h = fixed_hash(&[self.name.as_bytes(), data]);
                if data.len() > 12 && stats.nt.insert(h) && stats.samples.len() < 2 {
                    stats.samples.push(json!({"sub": self.name, "case": format!("{} octets: {}", data.len(), hexser::to_hex(&data[..data.len().min(64)]))}));
                }
                None
            }
            Err(f) if env.is_known(&f.sig) => {
                *stats.excluded_known.entry(f.sig.clone()).or_default() += 1;
                None
            }
            Err(f) => Some(f),
        }
    }
}

impl Sub for FuzzSub {
    fn name(&self) -> &str {
        self.name
    }

    fn run(&self, env: &Env) -> SubOutcome {
        let t0 = real_nanos();
        let mut stats = Stats::default();
        let mut violations = Vec::new();
        // replay tier: committed corpus + generator seeds through the in-process oracle
        let mut inputs: Vec<Vec<u8>> = Vec::new();
        if let Ok(rd) = std::fs::read_dir(self.corpus_dir()) {
            let mut files: Vec<PathBuf> = rd.filter_map(|e| e.ok().map(|e| e.path())).filter(|p| p.is_file()).collect();
            files.sort();
            for f in files {
                if let Ok(b) = std::fs::read(&f) {
                    inputs.push(b);
                }
            }
        }
        let seeds = (self.seeds)();
        inputs.extend(seeds.iter().cloned());
        for data in &inputs {
            if let Some(f) = self.eval(env, data, &mut stats) {
                if !violations.iter().any(|v: &ViolationRec| v.fail.sig == f.sig) {
                    violations.push(ViolationRec {
                        sub: self.name.to_string(),
                        fail: f,
                        case: serde_json::to_value(FuzzCase { input: data.clone() }).unwrap(),
                    });
                }
            }
        }
        stats.extra.insert(format!("fuzz_{}_corpus_replayed", self.target), json!(inputs.len()));
        if env.tier == Tier::Thorough && violations.is_empty() {
            let runs = ((self.runs_thorough as f64) * env.scale).ceil() as u64;
            let fuzz_dir = vpath("fuzz");
            let scratch = PathBuf::from(vpath(&format!(".scratch/fuzz-{}-{}", self.target, std::process::id())));
            let corpus = scratch.join("corpus");
            let artifacts = scratch.join("artifacts");
            let _ = std::fs::create_dir_all(&corpus);
            let _ = std::fs::create_dir_all(&artifacts);
            for (i, d) in inputs.iter().enumerate() {
                let _ = std::fs::write(corpus.join(format!("seed-{i:05}")), d);
            }
            let jobs = env.threads.clamp(1, 16);
            let per_job = runs.div_ceil(jobs as u64);
            let out = std::process::Command::new("cargo")
                .current_dir(&fuzz_dir)
                .env("CARGO_NET_OFFLINE", "true")
                .env("VERIF_DIR", verif_dir())
                .args(["+nightly", "fuzz", "run", "--fuzz-dir"])
                .arg(&fuzz_dir)
                .arg(self.target)
                .arg(&corpus)
                .arg("--")
                .arg(format!("-runs={per_job}"))
                .arg(format!("-seed={}", (env.seed % 0xffff_fffe) + 1))
                .arg(format!("-max_len={}", self.max_len))
                .arg("-len_control=0")
                .arg("-rss_limit_mb=4096")
                .arg("-malloc_limit_mb=2048")
                .arg("-timeout=60")
                .arg(format!("-fork={jobs}"))
                .arg("-ignore_crashes=0")
                .arg(format!("-artifact_prefix={}/", artifacts.display()))
                .output();
            match out {
                Ok(o) => {
                    let text = format!("{}\n{}", String::from_utf8_lossy(&o.stdout), String::from_utf8_lossy(&o.stderr));
                    let mut execs = 0u64;
                    let mut cov = 0u64;
                    let mut ft = 0u64;
                    for line in text.lines() {
                        // fork mode: "#12345: cov: 2345 ft: 6789 corp: 123 exec/s 456 ..."
                        if let Some(rest) = line.strip_prefix('#') {
                            if let Some((n, tail)) = rest.split_once(':') {
                                if let Ok(n) = n.trim().parse::<u64>() {
                                    execs = execs.max(n);
                                }
                                let toks: Vec<&str> = tail.split_whitespace().collect();
                                for w2 in toks.windows(2) {
                                    if w2[0] == "cov:" {
                                        cov = cov.max(w2[1].parse().unwrap_or(0));
                                    }
                                    if w2[0] == "ft:" {
                                        ft = ft.max(w2[1].parse().unwrap_or(0));
                                    }
                                }
                            }
                        }
                    }
                    stats.evaluations += execs;
                    stats.extra.insert(format!("fuzz_{}", self.target), json!({"execs": execs, "cov": cov, "features": ft, "requested_runs": runs, "jobs": jobs, "exit": o.status.code()}));
                    // any artifact is a finding candidate: re-judge it in-process (exact signature)
                    let mut arts: Vec<PathBuf> = std::fs::read_dir(&artifacts).map(|d| d.filter_map(|e| e.ok().map(|e| e.path())).collect()).unwrap_or_default();
                    arts.sort();
                    for a in arts {
                        let Ok(data) = std::fs::read(&a) else { continue };
                        let fname = a.file_name().map(|f| f.to_string_lossy().to_string()).unwrap_or_default();
                        let fail = match self.eval(env, &data, &mut stats) {
                            Some(f) => f,
                            None if fname.starts_with("crash-") || fname.starts_with("timeout-") || fname.starts_with("oom-") => {
                                if fname.starts_with("oom-") {
                                    // memory is not part of any statement checked here
                                    continue;
                                }
                                Fail::new(
                                    if fname.starts_with("timeout-") { "hang" } else { "fuzz-crash-not-reproduced-in-process" },
                                    format!("libFuzzer wrote {fname} but the in-process oracle passes (sanitizer finding or timeout)"),
                                )
                            }
                            None => continue,
                        };
                        if !violations.iter().any(|v: &ViolationRec| v.fail.sig == fail.sig) {
                            violations.push(ViolationRec { sub: self.name.to_string(), fail, case: serde_json::to_value(FuzzCase { input: data }).unwrap() });
                        }
                    }
                    if execs == 0 && violations.is_empty() {
                        eprintln!("[{}] fuzz campaign {} produced no executions (build failure?):\n{}", env.prop, self.target, text.lines().rev().take(15).collect::<Vec<_>>().join("\n"));
                        stats.extra.insert(format!("fuzz_{}_error", self.target), json!("campaign did not run"));
                    }
                }
                Err(e) => {
                    eprintln!("[{}] cannot start cargo fuzz: {e}", env.prop);
                    stats.extra.insert(format!("fuzz_{}_error", self.target), json!(e.to_string()));
                }
            }
            let _ = std::fs::remove_dir_all(&scratch);
        }
        SubOutcome { name: self.name.to_string(), stats, violations, wall_s: (real_nanos() - t0) as f64 / 1e9 }
    }

    fn replay(&self, case: &Value, env: &Env) -> Result<CaseResult, String> {
        let c: FuzzCase = serde_json::from_value(case.clone()).map_err(|e| format!("cannot decode fuzz case: {e}"))?;
        let r = guard(|| (self.oracle)(&c.input));
        Ok(match r {
            Err(f) if env.is_known(&f.sig) => Ok(()),
            r => r,
        })
    }
}

// ------------------------------------------------------------------------------------------
// check = a property id + its sub-properties + evidence metadata

pub struct Check {
    pub id: &'static str,
    pub level: &'static str,
    pub rule: &'static str,
    pub assumptions: Vec<&'static str>,
    pub subs: Vec<Box<dyn Sub>>,
}

fn load_known(prop: &str) -> Vec<KnownFinding> {
    let p = vpath(&format!("known_findings.json"));
    let Ok(txt) = std::fs::read_to_string(&p) else {
        return vec![];
    };
    let kf: KnownFile = match serde_json::from_str(&txt) {
        Ok(k) => k,
        Err(e) => {
            eprintln!("cannot parse {p}: {e}");
            std::process::exit(2);
        }
    };
    kf.findings.into_iter().filter(|f| f.property == prop).collect()
}

pub struct Cli {
    pub tier: Tier,
    pub seed: u64,
    pub replay: Option<PathBuf>,
    pub only_sub: Option<String>,
    pub scale: f64,
    pub strict: bool,
    pub no_evidence: bool,
}

pub fn run_check(check: Check, cli: &Cli) -> i32 {
    let t0 = real_nanos();
    let known = load_known(check.id);
    let known_sigs: Vec<String> = known
        .iter()
        .filter(|k| k.status == "known")
        .map(|k| k.signature.clone())
        .collect();
    let threads = std::env::var("VERIF_THREADS")
        .ok()
        .and_then(|s| s.parse().ok())
        .unwrap_or_else(|| std::thread::available_parallelism().map(|n| n.get()).unwrap_or(4));
    let mut env = Env {
        prop: check.id,
        tier: cli.tier,
        seed: cli.seed,
        known_sigs,
        strict: cli.strict,
        threads,
        only_sub: cli.only_sub.clone(),
        scale: cli.scale,
    };

    // ---- single replay ----------------------------------------------------------------
    if let Some(path) = &cli.replay {
        env.strict = true;
        return match replay_file(&check, &env, path) {
            Ok(Ok(())) => {
                println!("replay {}: property held on this case", path.display());
                0
            }
            Ok(Err(f)) => {
                println!("VIOLATION property={} replay={}", check.id, path.display());
                println!("  sig={} {}", f.sig, f.msg);
                1
            }
            Err(e) => {
                eprintln!("replay error: {e}");
                2
            }
        };
    }

    let mut violations: Vec<(ViolationRec, PathBuf)> = Vec::new();
    let mut known_hits: BTreeMap<String, (u64, Option<String>)> = BTreeMap::new();
    let mut replay_count = 0u64;

    // ---- replay tier: every committed regression file -----------------------------------
    let rdir = PathBuf::from(vpath(&format!("replays/{}", check.id)));
    let mut files: Vec<PathBuf> = std::fs::read_dir(&rdir)
        .map(|d| d.filter_map(|e| e.ok().map(|e| e.path())).collect())
        .unwrap_or_default();
    files.retain(|p| p.extension().is_some_and(|e| e == "json"));
    files.sort();
    let strict_env = Env {
        prop: env.prop,
        tier: env.tier,
        seed: env.seed,
        known_sigs: vec![],
        strict: true,
        threads: env.threads,
        only_sub: None,
        scale: 1.0,
    };
    for f in files {
        if env.only_sub.is_some() {
            break;
        }
        replay_count += 1;
        match replay_file(&check, &strict_env, &f) {
            Ok(Ok(())) => {
                // a "known" regression that no longer reproduces is fine (fixed / changed code)
            }
            Ok(Err(fail)) => {
                if env.known_sigs.iter().any(|s| *s == fail.sig) && !cli.strict {
                    let e = known_hits.entry(fail.sig.clone()).or_default();
                    e.0 += 1;
                    e.1.get_or_insert(f.display().to_string());
                } else {
                    let v = ViolationRec {
                        sub: "replay".into(),
                        fail,
                        case: Value::Null,
                    };
                    violations.push((v, f.clone()));
                }
            }
            Err(e) => {
                eprintln!("replay file {} unusable: {e}", f.display());
                return 2;
            }
        }
    }

    // ---- generated tier -----------------------------------------------------------------
    let mut total = Stats::default();
    let mut per_sub = Vec::new();
    let mut exhaustive_all: Option<bool> = None;
    for sub in &check.subs {
        if let Some(only) = &env.only_sub {
            if sub.name() != only {
                continue;
            }
        }
        let out = sub.run(&env);
        eprintln!(
            "[{}] sub {:<24} evals={:<9} nontrivial={:<9} known-excluded={:<6} violations={} wall={:.1}s",
            check.id,
            out.name,
            out.stats.evaluations,
            out.stats.nt.len(),
            out.stats.excluded_known.values().sum::<u64>(),
            out.violations.len(),
            out.wall_s
        );
        per_sub.push(json!({
            "sub": out.name, "evaluations": out.stats.evaluations,
            "distinct_nontrivial": out.stats.nt.len(), "wall_s": out.wall_s,
            "exhaustive": out.stats.exhaustive,
        }));
        if let Some(e) = out.stats.exhaustive {
            exhaustive_all = Some(exhaustive_all.unwrap_or(true) && e);
        }
        for v in out.violations {
            let path = write_replay(check.id, &v.sub, &v.fail, &v.case, None);
            violations.push((v, path));
        }
        for (sig, n) in &out.stats.excluded_known {
            let e = known_hits.entry(sig.clone()).or_default();
            e.0 += n;
        }
        total.merge(out.stats, 12);
    }

    // ---- report ---------------------------------------------------------------------------
    for k in known.iter().filter(|k| k.status == "known") {
        let (n, ex) = known_hits.get(&k.signature).cloned().unwrap_or((0, None));
        println!(
            "KNOWN-FINDING: property={} {}: {} ({} matching cases this run{})",
            check.id,
            k.signature,
            k.what,
            n,
            ex.or(k.replay.clone()).map(|r| format!(", e.g. {r}")).unwrap_or_default()
        );
    }
    for (v, path) in &violations {
        println!("VIOLATION property={} replay={}", check.id, path.display());
        println!("  sub={} sig={} {}", v.sub, v.fail.sig, v.fail.msg);
    }

    let wall = (real_nanos() - t0) as f64 / 1e9;
    if !cli.no_evidence && env.only_sub.is_none() {
        let mut coverage = serde_json::Map::new();
        coverage.insert("evaluations".into(), json!(total.evaluations + replay_count));
        coverage.insert("distinct_nontrivial".into(), json!(total.nt.len()));
        coverage.insert("rule".into(), json!(check.rule));
        coverage.insert("samples".into(), json!(total.samples));
        coverage.insert("classes".into(), json!(total.classes));
        coverage.insert("discarded".into(), json!(total.discarded));
        coverage.insert("counters".into(), json!(total.counters));
        coverage.insert("excluded_known".into(), json!(total.excluded_known));
        coverage.insert("replayed_regressions".into(), json!(replay_count));
        coverage.insert("per_sub".into(), json!(per_sub));
        if let Some(e) = exhaustive_all {
            // only claim exhaustiveness when *every* sub enumerated a finite space completely
            let all_enum = per_sub.iter().all(|p| !p["exhaustive"].is_null());
            coverage.insert("exhaustive".into(), json!(e && all_enum));
        }
        for (k, v) in total.extra {
            coverage.insert(k, v);
        }
        let ev = json!({
            "property_id": check.id,
            "tier": env.tier.as_str(),
            "seed": env.seed,
            "level": check.level,
            "coverage": coverage,
            "assumptions": check.assumptions,
            "wall_s": wall,
            "violations": violations.len(),
        });
        let _ = std::fs::create_dir_all(vpath(&format!("evidence")));
        let path = vpath(&format!("evidence/{}.json", check.id));
        if let Err(e) = std::fs::write(&path, serde_json::to_vec_pretty(&ev).unwrap()) {
            eprintln!("cannot write {path}: {e}");
            return 2;
        }
    }
    eprintln!(
        "[{}] tier={} seed={} evaluations={} distinct_nontrivial={} violations={} wall={:.1}s",
        check.id,
        env.tier.as_str(),
        env.seed,
        total.evaluations + replay_count,
        total.nt.len(),
        violations.len(),
        wall
    );
    if violations.is_empty() {
        0
    } else {
        1
    }
}

fn replay_file(check: &Check, env: &Env, path: &Path) -> Result<CaseResult, String> {
    let txt = std::fs::read_to_string(path).map_err(|e| format!("{}: {e}", path.display()))?;
    let doc: Value = serde_json::from_str(&txt).map_err(|e| format!("{}: {e}", path.display()))?;
    let sub = doc["sub"].as_str().ok_or("replay file has no 'sub'")?;
    let s = check
        .subs
        .iter()
        .find(|s| s.name() == sub)
        .ok_or_else(|| format!("no sub-property named {sub} in {}", check.id))?;
    s.replay(&doc["case"], env)
}

// ------------------------------------------------------------------------------------------
// serde helper: Vec<u8> as hex string (compact, readable replay files)

pub mod hexser {
    use serde::{Deserialize, Deserializer, Serializer};

    pub fn to_hex(b: &[u8]) -> String {
        const H: &[u8; 16] = b"0123456789abcdef";
        let mut s = String::with_capacity(b.len() * 2);
        for x in b {
            s.push(H[(x >> 4) as usize] as char);
            s.push(H[(x & 15) as usize] as char);
        }
        s
    }

    pub fn from_hex(s: &str) -> Result<Vec<u8>, String> {
        let s = s.as_bytes();
        if s.len() % 2 != 0 {
            return Err("odd hex length".into());
        }
        let v = |c: u8| -> Result<u8, String> {
            match c {
                b'0'..=b'9' => Ok(c - b'0'),
                b'a'..=b'f' => Ok(c - b'a' + 10),
                b'A'..=b'F' => Ok(c - b'A' + 10),
                _ => Err("bad hex digit".into()),
            }
        };
        s.chunks(2).map(|p| Ok(v(p[0])? << 4 | v(p[1])?)).collect()
    }

    pub fn serialize<S: Serializer>(b: &Vec<u8>, s: S) -> Result<S::Ok, S::Error> {
        s.serialize_str(&to_hex(b))
    }

    pub fn deserialize<'de, D: Deserializer<'de>>(d: D) -> Result<Vec<u8>, D::Error> {
        let s = String::deserialize(d)?;
        from_hex(&s).map_err(serde::de::Error::custom)
    }
}

/// Vec<Vec<u8>> as list of hex strings
pub mod hexvec {
    use serde::{Deserialize, Deserializer, Serialize, Serializer};

    pub fn serialize<S: Serializer>(b: &Vec<Vec<u8>>, s: S) -> Result<S::Ok, S::Error> {
        let v: Vec<String> = b.iter().map(|x| super::hexser::to_hex(x)).collect();
        v.serialize(s)
    }

    pub fn deserialize<'de, D: Deserializer<'de>>(d: D) -> Result<Vec<Vec<u8>>, D::Error> {
        let v = Vec::<String>::deserialize(d)?;
        v.iter()
            .map(|s| super::hexser::from_hex(s).map_err(serde::de::Error::custom))
            .collect()
    }
}
