//! RRset generators for C05/C06: RDATA sets of one type (1..6 members, related mixed-case
//! names, injected duplicates, shuffled), owners (plain / wildcard / arbitrary octets / root),
//! RRSIG parameter tuples; and the adapter that hands a model RR to hickory through its public
//! wire decoder (the way a validator receives records).

use hickory_proto::rr::Record;
use hickory_proto::serialize::binary::{BinDecodable, BinDecoder};
use proptest::collection::vec;
use proptest::prelude::*;
use serde::{Deserialize, Serialize};

use crate::gen::names::{self, MName, Rel};
use crate::refm::tbs_ref::SigParams;
use crate::refm::dnssec_wire::{self as w, MRdata};

const WORDS: &[&[u8]] = &[
    b"a", b"A", b"b", b"B", b"ab", b"Ab", b"aB", b"AB", b"example", b"Example", b"EXAMPLE", b"com", b"COM", b"ns1",
    b"NS1", b"ns2", b"mail", b"Mail", b"www", b"_tcp", b"xn--x", b"Z", b"z", b"0", b"a-b", b"[", b"{", b"@", b"`",
];

fn small_label() -> impl Strategy<Value = Vec<u8>> {
    prop_oneof![
        8 => prop::sample::select(WORDS).prop_map(|w| w.to_vec()),
        2 => vec(prop::sample::select(&b"aAbBzZ"[..]), 1..=3),
        1 => names::label(),
    ]
}

/// a short absolute name with deliberate upper/lower case variety
pub fn small_name() -> impl Strategy<Value = MName> {
    prop_oneof![
        12 => vec(small_label(), 1..=4).prop_map(|l| MName::fq(names::fit(l, 255))),
        1 => Just(MName::fq(vec![])),
        2 => names::fqdn(),
    ]
}

fn name_rel() -> impl Strategy<Value = Rel> {
    prop_oneof![
        5 => any::<u64>().prop_map(Rel::CaseFlip),
        1 => Just(Rel::Same),
        2 => (any::<usize>(), any::<u8>()).prop_map(|(i, b)| Rel::SetOctet(i, b)),
        2 => (any::<usize>(), vec(small_label(), 0..=2)).prop_map(|(i, l)| Rel::SharedSuffix(i, l)),
        1 => (any::<usize>(), small_label()).prop_map(|(i, l)| Rel::InsertLabel(i, l)),
        1 => any::<usize>().prop_map(Rel::DropLabel),
        1 => (any::<usize>(), any::<u8>()).prop_map(|(i, b)| Rel::ExtendLabel(i, b)),
        1 => any::<usize>().prop_map(Rel::TruncateLabel),
    ]
}

/// `n` names related to each other (case variants, shared suffixes, one-octet edits)
pub fn name_pool(n: usize) -> impl Strategy<Value = Vec<MName>> {
    (small_name(), vec((name_rel(), any::<usize>()), n.saturating_sub(1))).prop_map(|(a, rels)| {
        let mut pool = vec![a.labels];
        for (r, from) in rels {
            let base = pool[from % pool.len()].clone();
            pool.push(names::apply_rel(&base, &r));
        }
        pool.into_iter().map(MName::fq).collect()
    })
}

#[derive(Clone, Copy, Debug, PartialEq, Eq)]
pub enum Kind {
    A,
    Aaaa,
    Ns,
    Cname,
    Ptr,
    Mx,
    Soa,
    Txt,
    Hinfo,
    Srv,
    Naptr,
    Caa,
    Tlsa,
    Sshfp,
    Ds,
    Dnskey,
    Nsec,
    Nsec3param,
    NameOnly,
    PrefName,
    TwoNames,
    Svc,
    Aname,
    Opaque,
}

fn kind() -> impl Strategy<Value = Kind> {
    prop_oneof![
        2 => Just(Kind::A),
        1 => Just(Kind::Aaaa),
        5 => Just(Kind::Ns),
        1 => Just(Kind::Cname),
        3 => Just(Kind::Ptr),
        5 => Just(Kind::Mx),
        1 => Just(Kind::Soa),
        3 => Just(Kind::Txt),
        1 => Just(Kind::Hinfo),
        3 => Just(Kind::Srv),
        2 => Just(Kind::Naptr),
        1 => Just(Kind::Caa),
        1 => Just(Kind::Tlsa),
        1 => Just(Kind::Sshfp),
        1 => Just(Kind::Ds),
        1 => Just(Kind::Dnskey),
        2 => Just(Kind::Nsec),
        1 => Just(Kind::Nsec3param),
        1 => Just(Kind::NameOnly),
        1 => Just(Kind::PrefName),
        1 => Just(Kind::TwoNames),
        2 => Just(Kind::Svc),
        1 => Just(Kind::Aname),
        2 => Just(Kind::Opaque),
    ]
}

/// raw material from which the members of one RRset are built
#[derive(Clone, Debug)]
struct Seed {
    names: Vec<MName>,
    nums: Vec<u32>,
    blobs: Vec<Vec<u8>>,
    code_sel: usize,
}

fn seed() -> impl Strategy<Value = Seed> {
    (
        name_pool(12),
        // small numbers with frequent repeats (equal preferences make the name decide the order)
        vec(prop_oneof![3 => 0u32..4, 1 => any::<u32>()], 48),
        vec(
            prop_oneof![
                6 => vec(any::<u8>(), 1..12),
                2 => vec(prop::sample::select(&b"aAbB\0"[..]), 0..4),
                1 => vec(any::<u8>(), 200..=255),
            ],
            24,
        ),
        any::<usize>(),
    )
        .prop_map(|(names, nums, blobs, code_sel)| Seed {
            names,
            nums,
            blobs,
            code_sel,
        })
}

fn alnum(b: &[u8], max: usize) -> Vec<u8> {
    const AL: &[u8] = b"abcdefghijklmnopqrstuvwxyzABCDEFGHIJKLMNOPQRSTUVWXYZ0123456789";
    b.iter().take(max).map(|x| AL[*x as usize % AL.len()]).collect()
}

fn build(kind: Kind, i: usize, s: &Seed) -> MRdata {
    let nm = |k: usize| s.names[(i * 2 + k) % s.names.len()].clone();
    let num = |k: usize| s.nums[(i * 8 + k) % s.nums.len()];
    let blob = |k: usize| s.blobs[(i * 4 + k) % s.blobs.len()].clone();
    let nonempty = |mut b: Vec<u8>| {
        if b.is_empty() {
            b.push(0x61);
        }
        b
    };
    match kind {
        Kind::A => MRdata::A(num(0).to_be_bytes().to_vec()),
        Kind::Aaaa => {
            let mut v = Vec::new();
            for k in 0..4 {
                v.extend_from_slice(&num(k).to_be_bytes());
            }
            MRdata::Aaaa(v)
        }
        Kind::Ns => MRdata::Ns(nm(0)),
        Kind::Cname => MRdata::Cname(nm(0)),
        Kind::Ptr => MRdata::Ptr(nm(0)),
        Kind::Mx => MRdata::Mx {
            pref: num(0) as u16,
            exchange: nm(0),
        },
        Kind::Soa => MRdata::Soa {
            mname: nm(0),
            rname: nm(1),
            serial: num(0),
            refresh: num(1),
            retry: num(2),
            expire: num(3),
            minimum: num(4),
        },
        Kind::Txt => {
            let n = 1 + (num(0) as usize % 3);
            MRdata::Txt((0..n).map(|k| blob(k)).collect())
        }
        Kind::Hinfo => MRdata::Hinfo {
            cpu: blob(0),
            os: blob(1),
        },
        Kind::Srv => MRdata::Srv {
            priority: num(0) as u16,
            weight: num(1) as u16,
            port: num(2) as u16,
            target: nm(0),
        },
        Kind::Naptr => MRdata::Naptr {
            order: num(0) as u16,
            preference: num(1) as u16,
            flags: alnum(&blob(0), 4),
            services: blob(1),
            regexp: blob(2),
            replacement: nm(0),
        },
        Kind::Caa => MRdata::Caa {
            flags: num(0) as u8,
            tag: nonempty(alnum(&blob(0), 15)),
            value: blob(1),
        },
        Kind::Tlsa => MRdata::Tlsa {
            usage: num(0) as u8,
            selector: num(1) as u8,
            matching: num(2) as u8,
            data: nonempty(blob(0)),
        },
        Kind::Sshfp => MRdata::Sshfp {
            alg: num(0) as u8,
            fptype: num(1) as u8,
            fp: nonempty(blob(0)),
        },
        Kind::Ds => MRdata::Ds {
            key_tag: num(0) as u16,
            alg: [8u8, 13, 15, 200][num(1) as usize % 4],
            digest_type: [1u8, 2, 4, 99][num(2) as usize % 4],
            digest: nonempty(blob(0)),
        },
        Kind::Dnskey => MRdata::Dnskey {
            flags: [256u16, 257, 0, 385][num(0) as usize % 4],
            alg: [8u8, 13, 15, 200][num(1) as usize % 4],
            key: nonempty(blob(0)),
        },
        Kind::Nsec => {
            let mut types: Vec<u16> = (0..(1 + num(0) as usize % 5))
                .map(|k| match num(1 + k) % 7 {
                    0 => 1,
                    1 => 2,
                    2 => 46,
                    3 => 47,
                    4 => 257,
                    5 => (num(1 + k) >> 8) as u16 % 1024,
                    _ => (num(1 + k) >> 3) as u16,
                })
                .collect();
            types.sort_unstable();
            types.dedup();
            MRdata::Nsec { next: nm(0), types }
        }
        Kind::Nsec3param => MRdata::Nsec3param {
            // RFC 5155 §4.1.2: only the opt-out bit position may be set, the rest must be zero
            flags: (num(0) & 1) as u8,
            iterations: num(1) as u16,
            salt: blob(0).into_iter().take(40).collect(),
        },
        Kind::NameOnly => MRdata::NameOnly {
            code: w::NAME_ONLY_CODES[s.code_sel % w::NAME_ONLY_CODES.len()],
            name: nm(0),
        },
        Kind::PrefName => MRdata::PrefName {
            code: w::PREF_NAME_CODES[s.code_sel % w::PREF_NAME_CODES.len()],
            pref: num(0) as u16,
            name: nm(0),
        },
        Kind::TwoNames => MRdata::TwoNames {
            code: w::TWO_NAME_CODES[s.code_sel % w::TWO_NAME_CODES.len()],
            a: nm(0),
            b: nm(1),
        },
        Kind::Svc => MRdata::Svc {
            code: [64u16, 65][s.code_sel % 2],
            // priority 0 is the alias form, which carries no parameters
            prio: 1 + num(0) as u16 % 3,
            target: nm(0),
            port: if num(1) % 2 == 0 { None } else { Some(num(2) as u16) },
        },
        Kind::Aname => MRdata::Aname(nm(0)),
        Kind::Opaque => MRdata::Opaque {
            // type codes without any special rule, unknown to hickory: SPF(99), URI(256),
            // private use
            code: [99u16, 256, 65280, 65399, 65534][s.code_sel % 5],
            data: nonempty(blob(0)),
        },
    }
}

/// a copy of `rd` whose foldable embedded names have some letters' case flipped: canonically the
/// same RR (RFC 4034 §6.2 item 3), octet-wise a different one
pub fn case_variant(rd: &MRdata, mask: u64) -> MRdata {
    let flip = |n: &MName| MName::fq(names::apply_rel(&n.labels, &Rel::CaseFlip(mask)));
    match rd {
        MRdata::Ns(n) => MRdata::Ns(flip(n)),
        MRdata::Cname(n) => MRdata::Cname(flip(n)),
        MRdata::Ptr(n) => MRdata::Ptr(flip(n)),
        MRdata::Mx { pref, exchange } => MRdata::Mx {
            pref: *pref,
            exchange: flip(exchange),
        },
        MRdata::Srv {
            priority,
            weight,
            port,
            target,
        } => MRdata::Srv {
            priority: *priority,
            weight: *weight,
            port: *port,
            target: flip(target),
        },
        MRdata::Naptr {
            order,
            preference,
            flags,
            services,
            regexp,
            replacement,
        } => MRdata::Naptr {
            order: *order,
            preference: *preference,
            flags: flags.clone(),
            services: services.clone(),
            regexp: regexp.clone(),
            replacement: flip(replacement),
        },
        MRdata::NameOnly { code, name } => MRdata::NameOnly {
            code: *code,
            name: flip(name),
        },
        MRdata::PrefName { code, pref, name } => MRdata::PrefName {
            code: *code,
            pref: *pref,
            name: flip(name),
        },
        MRdata::TwoNames { code, a, b } => MRdata::TwoNames {
            code: *code,
            a: flip(a),
            b: flip(b),
        },
        // for these two the variant is a different RR (the name is not folded), which the signed
        // data must keep next to the original
        MRdata::Nsec { next, types } => MRdata::Nsec {
            next: flip(next),
            types: types.clone(),
        },
        MRdata::Aname(n) => MRdata::Aname(flip(n)),
        MRdata::Svc { code, prio, target, port } => MRdata::Svc {
            code: *code,
            prio: *prio,
            target: flip(target),
            port: *port,
        },
        other => other.clone(),
    }
}

/// members of one RRset: one kind, 1..6 RDATAs (1 for the singleton types), 0..2 injected
/// duplicates (exact or case variant), arbitrary order
pub fn rrset_rdatas() -> impl Strategy<Value = Vec<MRdata>> {
    (
        kind(),
        1usize..=6,
        seed(),
        prop_oneof![
            4 => Just(vec![]),
            1 => vec((any::<usize>(), any::<bool>(), any::<u64>()), 1..=2),
        ],
        vec(any::<u16>(), 8),
    )
        .prop_map(|(kind, n, seed, dups, order)| {
            let n = match kind {
                // RFC 1034 §3.6.2 / RFC 1035 §3.3.13 / RFC 4035 §2.3: one CNAME, SOA, NSEC per owner
                Kind::Cname | Kind::Soa | Kind::Nsec => 1,
                _ => n,
            };
            // members are canonically distinct by construction; duplicates only where injected
            let mut rds: Vec<MRdata> = Vec::new();
            for i in 0..n {
                let rd = build(kind, i, &seed);
                let c = rd.canonical();
                if !rds.iter().any(|r| r.canonical() == c) {
                    rds.push(rd);
                }
            }
            for (idx, exact, mask) in dups {
                let src = rds[idx % rds.len()].clone();
                rds.push(if exact { src } else { case_variant(&src, mask) });
            }
            let mut idx: Vec<usize> = (0..rds.len()).collect();
            idx.sort_by_key(|i| (order[*i % order.len()], *i));
            idx.into_iter().map(|i| rds[i].clone()).collect()
        })
}

/// owner names: plain mixed case, wildcard, arbitrary octets / long, root
pub fn owner() -> impl Strategy<Value = MName> {
    prop_oneof![
        6 => vec(small_label(), 1..=4).prop_map(|l| MName::fq(names::fit(l, 255))),
        3 => vec(small_label(), 0..=3).prop_map(|l| {
            let mut v = vec![b"*".to_vec()];
            v.extend(l);
            MName::fq(names::fit(v, 255))
        }),
        2 => names::fqdn(),
        1 => Just(MName::fq(vec![])),
    ]
}

/// how the RRSIG Labels field relates to the owner
#[derive(Clone, Copy, Debug, PartialEq, Eq, Serialize, Deserialize)]
pub enum LabelsChoice {
    /// RFC 4034 §3.1.3 value for a non-expanded owner
    Exact,
    /// fewer: the RRset was synthesised from a wildcard (RFC 4035 §5.3.2 reduction applies)
    Fewer(u8),
    /// more than the owner has labels: RFC 4035 §5.3.2 says the RRSIG must not be used
    Greater(u8),
}

pub fn labels_choice() -> impl Strategy<Value = LabelsChoice> {
    prop_oneof![
        6 => Just(LabelsChoice::Exact),
        4 => any::<u8>().prop_map(LabelsChoice::Fewer),
        1 => (0u8..3).prop_map(LabelsChoice::Greater),
    ]
}

pub fn resolve_labels(owner: &MName, c: LabelsChoice) -> u8 {
    let count = crate::refm::tbs_ref::label_count(&owner.labels);
    match c {
        LabelsChoice::Exact => count as u8,
        LabelsChoice::Fewer(x) => {
            if count == 0 {
                0
            } else {
                (x as usize % count) as u8
            }
        }
        // above the full label count (also above it when a leading "*" is counted)
        LabelsChoice::Greater(x) => (owner.labels.len() + 1 + x as usize).min(255) as u8,
    }
}

pub fn u32_edge() -> impl Strategy<Value = u32> {
    prop_oneof![
        4 => any::<u32>(),
        1 => prop::sample::select(&[0u32, 1, 0x7fff_ffff, 0x8000_0000, 0x8000_0001, 0xffff_fffe, 0xffff_ffff][..]),
        2 => 1_600_000_000u32..1_900_000_000,
    ]
}

/// RRSIG parameter tuple for an RRset of type `rtype` at `owner` (Labels resolved separately)
pub fn sig_params(owner: MName, rtype: u16) -> impl Strategy<Value = SigParams> {
    let signer = prop_oneof![
        5 => (any::<usize>(), any::<u64>()).prop_map({
            let owner = owner.clone();
            move |(cut, mask)| {
                let keep = if owner.labels.is_empty() { 0 } else { cut % (owner.labels.len() + 1) };
                let suffix = owner.labels[owner.labels.len() - keep..].to_vec();
                MName::fq(names::apply_rel(&suffix, &Rel::CaseFlip(mask)))
            }
        }),
        2 => small_name(),
    ];
    (
        prop_oneof![
            8 => prop::sample::select(&[15u8, 13, 14, 8, 10, 5, 7, 16][..]),
            1 => any::<u8>(),
        ],
        prop_oneof![3 => 0u32..100_000, 1 => any::<u32>()],
        u32_edge(),
        u32_edge(),
        any::<u16>(),
        signer,
    )
        .prop_map(move |(algorithm, original_ttl, expiration, inception, key_tag, signer)| SigParams {
            type_covered: rtype,
            algorithm,
            labels: 0,
            original_ttl,
            expiration,
            inception,
            key_tag,
            signer,
        })
}

/// Hand one model RR to hickory the way a validator gets it: through the public wire decoder.
pub fn to_hickory_record(owner: &MName, class: u16, ttl: u32, rd: &MRdata) -> Result<Record, String> {
    to_hickory_raw(owner, rd.rtype(), class, ttl, &rd.raw())
}

pub fn to_hickory_raw(owner: &MName, rtype: u16, class: u16, ttl: u32, rdata: &[u8]) -> Result<Record, String> {
    let wire = w::rr_wire(&owner.labels, rtype, class, ttl, rdata);
    let mut dec = BinDecoder::new(&wire);
    let rec = Record::read(&mut dec).map_err(|e| format!("hickory cannot decode the RR: {e}"))?;
    if dec.index() != wire.len() {
        return Err(format!("hickory decoded {} of {} octets of the RR", dec.index(), wire.len()));
    }
    if u16::from(rec.record_type()) != rtype {
        return Err(format!("decoded type {} != {}", u16::from(rec.record_type()), rtype));
    }
    Ok(rec)
}
