//! Generators for C19: small simulated internets (raw form, see refm::authsim), recursor
//! configurations and query lists. Every raw value denotes a valid world (indices are taken
//! modulo at build time), so shrinking never leaves the domain.

use proptest::collection::vec;
use proptest::prelude::*;
use serde::{Deserialize, Serialize};

use crate::refm::authsim::{ChainEnd, InjKind, Ip, RawChain, RawData, RawFan, RawInj, RawNet, RawNs, RawRr, RawServer, RawZone};

#[derive(Clone, Debug, Serialize, Deserialize)]
pub struct NetSel {
    pub addr: Ip,
    pub len: u8,
}

#[derive(Clone, Debug, Serialize, Deserialize)]
pub struct Cfg {
    pub recursion_limit: u8,
    pub ns_recursion_limit: u8,
    pub deny_server: Vec<NetSel>,
    pub allow_server: Vec<NetSel>,
    pub deny_answers: Vec<NetSel>,
    pub allow_answers: Vec<NetSel>,
    pub relaxed_qmin: bool,
    pub case_randomization: bool,
}

#[derive(Clone, Debug, Serialize, Deserialize)]
pub enum QTarget {
    Data { zone: u8, label: u8 },
    Apex { zone: u8 },
    NsHost { zone: u8, k: u8 },
    /// a name that does not exist in the zone
    Nx { zone: u8 },
    /// the root of the alias tree (falls back to a zone apex when the world has none)
    Fan,
    /// element `offset` of generated CNAME chain `chain` (both modulo; falls back to a data name)
    Chain { chain: u8, offset: u8 },
    /// a data name in the deepest zone delegated to server `server` (modulo)
    Hosted { server: u8, label: u8 },
}

#[derive(Clone, Debug, Serialize, Deserialize)]
pub struct RawQuery {
    pub target: QTarget,
    /// index into [A, AAAA, NS, CNAME, TXT] (modulo)
    pub qt: u8,
}

#[derive(Clone, Debug, Serialize, Deserialize)]
pub struct NetCase {
    /// seed of the OS-randomness stream hickory sees during the case (initial SRTT order, ids, ports)
    #[serde(default)]
    pub os_seed: u64,
    /// 0 = every reply arrives at once; otherwise server i answers after latency_ms * (i % 3)
    #[serde(default)]
    pub latency_ms: u8,
    pub net: RawNet,
    pub cfg: Cfg,
    pub queries: Vec<RawQuery>,
    /// TTL of the records the simulated servers send: 0 = 3600 s everywhere, 1 = NS records have
    /// TTL 0 (every delegation must be learnt again), 2 = every record has TTL 0
    #[serde(default)]
    pub ttl_mode: u8,
}

fn raw_ns() -> impl Strategy<Value = RawNs> {
    (
        prop_oneof![14 => Just(0u8), 2 => Just(1u8), 4 => Just(2u8)],
        0u8..8,
        0u8..2,
        prop::bool::weighted(0.85),
        0u8..8,
        prop::bool::weighted(0.05),
    )
        .prop_map(|(host_sel, host_zone, k, glue, server, lame)| RawNs {
            host_sel,
            host_zone,
            k,
            glue,
            server,
            lame,
        })
}

fn raw_rr() -> impl Strategy<Value = RawRr> {
    prop_oneof![
        5 => (0u8..8).prop_map(RawRr::A),
        4 => (0u8..8, 0u8..6).prop_map(|(zone, label)| RawRr::Cname { zone, label }),
        1 => Just(RawRr::Txt),
    ]
}

fn raw_zone() -> impl Strategy<Value = RawZone> {
    (
        0u8..8,
        0u8..3,
        vec(raw_ns(), 1..=2),
        vec((0u8..6, raw_rr()).prop_map(|(label, rr)| RawData { label, rr }), 1..=4),
        prop::bool::weighted(0.3),
    )
        .prop_map(|(parent, label, ns, data, apex_a)| RawZone {
            parent,
            label,
            ns,
            data,
            apex_a,
        })
}

fn raw_inj() -> impl Strategy<Value = RawInj> {
    let kind = prop_oneof![
        3 => (0u8..8, 0u8..6).prop_map(|(zone, label)| InjKind::VictimA { zone, label }),
        2 => (0u8..8).prop_map(|zone| InjKind::VictimNs { zone }),
        2 => (0u8..8).prop_map(|zone| InjKind::VictimNsOwnHost { zone }),
        2 => (0u8..8, 0u8..6).prop_map(|(zone, label)| InjKind::VictimCname { zone, label }),
        2 => (0u8..8).prop_map(|zone| InjKind::VictimNsHostA { zone }),
        1 => Just(InjKind::RootNs),
        2 => (0u8..8, 0u8..6).prop_map(|(zone, label)| InjKind::VictimNsec { zone, label }),
    ];
    (0u8..3, prop_oneof![4 => Just(0u8), 1 => Just(1u8), 1 => Just(2u8), 1 => Just(3u8)], kind)
        .prop_map(|(section, on, kind)| RawInj { section, on, kind })
}

fn raw_server() -> impl Strategy<Value = RawServer> {
    prop_oneof![
        20 => Just(RawServer::Honest),
        10 => vec(raw_inj(), 1..=3).prop_map(RawServer::Hostile),
        1 => Just(RawServer::Dead),
        1 => Just(RawServer::Refuse),
        1 => Just(RawServer::ServFail),
    ]
}

fn raw_chain() -> impl Strategy<Value = RawChain> {
    let len = prop_oneof![3 => 1usize..=3, 2 => 4usize..=9, 2 => 10usize..=20];
    (
        len.prop_flat_map(|n| vec((0u8..8, 0u8..6), n)),
        prop_oneof![2 => Just(ChainEnd::A), 1 => Just(ChainEnd::Nx), 2 => (0u8..20).prop_map(ChainEnd::LoopTo)],
    )
        .prop_map(|(slots, end)| RawChain { slots, end })
}

pub fn raw_net() -> impl Strategy<Value = RawNet> {
    (
        vec(
            raw_ns().prop_map(|mut n| {
                n.host_sel = 0;
                n
            }),
            1..=2,
        ),
        vec(raw_zone(), 1..=7),
        vec(raw_server(), 2..=8),
        vec(raw_chain(), 0..=2),
        any::<bool>(),
        prop_oneof![12 => Just(None), 1 => (0u8..8, prop_oneof![1 => Just(2u8), 3 => Just(3u8)], 4u8..=5).prop_map(|(zone, k, depth)| Some(RawFan { zone, k, depth }))],
    )
        .prop_map(|(root_ns, zones, servers, chains, chase, fan)| RawNet {
            root_ns,
            zones,
            servers,
            chains,
            chase,
            fan,
        })
}

fn net_sel() -> impl Strategy<Value = NetSel> {
    prop_oneof![
        // one authoritative server / its /24
        8 => (0u8..8).prop_map(|s| NetSel { addr: [11, 0, s, 1], len: 32 }),
        3 => (0u8..8).prop_map(|s| NetSel { addr: [11, 0, s, 0], len: 24 }),
        1 => Just(NetSel { addr: [11, 0, 0, 0], len: 16 }),
        // host data addresses
        6 => (1u8..8, 0u8..8).prop_map(|(z, v)| NetSel { addr: [198, 18, z, v], len: 32 }),
        3 => (1u8..8).prop_map(|z| NetSel { addr: [198, 18, z, 0], len: 24 }),
        1 => Just(NetSel { addr: [198, 18, 0, 0], len: 15 }),
        // the poison range itself
        1 => Just(NetSel { addr: [203, 0, 113, 0], len: 24 }),
    ]
}

fn acl() -> impl Strategy<Value = (Vec<NetSel>, Vec<NetSel>)> {
    prop_oneof![
        7 => Just((vec![], vec![])),
        2 => vec(net_sel(), 1..=2).prop_map(|d| (d, vec![])),
        1 => (vec(net_sel(), 1..=2), vec(net_sel(), 1..=2)),
    ]
}

pub fn cfg() -> impl Strategy<Value = Cfg> {
    // small limits (2..6) so that they bite, plus the shipped default (24) and one in between;
    // the two limits share one depth counter, so a large name-server limit is what lets the
    // alias limit act on its own
    let r_limit = prop_oneof![2 => Just(2u8), 2 => Just(3u8), 2 => Just(4u8), 2 => Just(5u8), 2 => Just(6u8), 1 => Just(24u8)];
    let ns_limit = prop_oneof![1 => Just(2u8), 1 => Just(3u8), 2 => Just(4u8), 2 => Just(5u8), 3 => Just(6u8), 1 => Just(12u8), 3 => Just(24u8)];
    (r_limit, ns_limit, acl(), acl(), prop::bool::weighted(0.25), prop::bool::weighted(0.15)).prop_map(
        |(recursion_limit, ns_recursion_limit, (deny_server, allow_server), (deny_answers, allow_answers), relaxed_qmin, case_randomization)| Cfg {
            recursion_limit,
            ns_recursion_limit,
            deny_server,
            allow_server,
            deny_answers,
            allow_answers,
            relaxed_qmin,
            case_randomization,
        },
    )
}

fn raw_query() -> impl Strategy<Value = RawQuery> {
    let target = prop_oneof![
        4 => (0u8..8, 0u8..6).prop_map(|(zone, label)| QTarget::Data { zone, label }),
        3 => (0u8..3, prop_oneof![3 => Just(0u8), 1 => 0u8..20]).prop_map(|(chain, offset)| QTarget::Chain { chain, offset }),
        4 => (0u8..8, 0u8..6).prop_map(|(server, label)| QTarget::Hosted { server, label }),
        2 => (0u8..8).prop_map(|zone| QTarget::Apex { zone }),
        1 => (0u8..8, 0u8..2).prop_map(|(zone, k)| QTarget::NsHost { zone, k }),
        1 => (0u8..8).prop_map(|zone| QTarget::Nx { zone }),
        1 => Just(QTarget::Fan),
    ];
    (target, prop_oneof![6 => Just(0u8), 1 => Just(1u8), 2 => Just(2u8), 1 => Just(3u8), 1 => Just(4u8)])
        .prop_map(|(target, qt)| RawQuery { target, qt })
}

pub fn net_case() -> impl Strategy<Value = NetCase> {
    (0u64..16, prop_oneof![3 => Just(0u8), 1 => Just(7u8), 1 => Just(150u8)], raw_net(), cfg(), vec(raw_query(), 1..=4), prop_oneof![10 => Just(0u8), 1 => Just(1u8), 1 => Just(2u8)]).prop_map(|(os_seed, latency_ms, net, mut cfg, mut queries, ttl_mode)| {
        if net.fan.is_some() {
            // the tree is there to be walked: ask for its root, with room to nest
            queries[0] = RawQuery { target: QTarget::Fan, qt: 0 };
            if os_seed % 4 != 0 {
                cfg.recursion_limit = cfg.recursion_limit.max(6);
            }
        }
        NetCase { os_seed, latency_ms, net, cfg, queries, ttl_mode }
    })
}
