//! Generators for C20: record sets of parser-supported types with layouts for the independent
//! master-file printer, and garbage zone texts for the robustness clause.

use std::collections::BTreeMap;

use proptest::collection::vec;
use proptest::prelude::*;

use crate::core::Tier;
use crate::refm::zonefile_printer::{Blob, Item, Labels, LongRun, OwnerStyle, Paren, RrLayout, SvcParam, ZData, ZRec, ZoneFile};

// ---------------------------------------------------------------------------------------------
// names (the alphabet the statement and DESIGN §7 C20 FA allow in the exact-load domain)

/// LDH label: letters/digits, inner single hyphens, never "xn--", mixed case
fn ldh() -> impl Strategy<Value = String> {
    prop_oneof![
        8 => "[a-z0-9]{1,6}(-[a-z0-9]{1,4}){0,2}",
        3 => "[a-zA-Z][a-zA-Z0-9]{0,7}",
        1 => "[0-9]{1,3}",
        1 => "[a-z]{63}",
    ]
    .prop_filter("no punycode prefix", |s| !s.to_ascii_lowercase().starts_with("xn-"))
}

fn label() -> impl Strategy<Value = String> {
    prop_oneof![
        10 => ldh(),
        1 => "_[a-z0-9]{1,8}",
        // escaped dot inside a label (RFC 1035 §5.1 "\."), e.g. the SOA RNAME convention
        2 => "[a-z0-9]{1,5}\\.[a-z0-9]{1,5}",
        // ... also as the last or the first octet of a label (a relative name written "j\." ends
        // in a dot character without being absolute)
        1 => "[a-z0-9]{1,5}\\.",
        1 => "\\.[a-z0-9]{1,5}",
    ]
}

fn origin() -> impl Strategy<Value = Labels> {
    prop_oneof![
        4 => Just(vec!["example".to_string(), "com".to_string()]),
        2 => Just(vec!["Example".to_string(), "ORG".to_string()]),
        2 => Just(vec!["sub".to_string(), "example".to_string(), "com".to_string()]),
        1 => Just(vec!["test".to_string()]),
        2 => vec(ldh(), 1..=3).prop_map(|mut v| {
            // keep room for two more labels below the origin
            while v.iter().map(|l| l.len() + 1).sum::<usize>() > 100 {
                v.remove(0);
            }
            v
        }),
    ]
}

/// a name related to one of the origins of the file (so that relative forms and `@` apply), or
/// unrelated
fn name_in(origins: Vec<Labels>) -> impl Strategy<Value = Labels> {
    let n = origins.len();
    (0..n, prop_oneof![6 => Just(0usize), 10 => Just(1usize), 4 => Just(2usize), 1 => Just(7usize), 2 => Just(9usize)], vec(label(), 2), any::<bool>(), vec(ldh(), 1..=3), 0usize..4).prop_map(
        move |(oi, depth, ls, star, other, short_by)| {
            let o = &origins[oi];
            if depth == 7 {
                // RFC 1035 §2.3.4 boundary: a name below the origin whose wire form is exactly 255
                // octets (mostly) or 1-3 octets shorter
                let target = 255 - [0usize, 0, 1, 3][short_by];
                let used: usize = o.iter().map(|l| l.len() + 1).sum::<usize>() + 1;
                let mut room = target.saturating_sub(used);
                let mut out: Labels = Vec::new();
                while room >= 2 {
                    let mut take = room.min(64);
                    if room - take == 1 {
                        take -= 1;
                    }
                    out.push(ls[0].chars().filter(|c| c.is_ascii_alphanumeric()).chain(std::iter::repeat('a')).take(take - 1).collect());
                    room -= take;
                }
                out.extend(o.iter().cloned());
                return out;
            }
            let mut out: Labels = match depth {
                0 => vec![],
                1 => vec![ls[0].clone()],
                2 => vec![ls[0].clone(), ls[1].clone()],
                _ => return other,
            };
            if star && depth >= 1 && depth <= 2 {
                out[0] = "*".to_string();
            }
            out.extend(o.iter().cloned());
            // RFC 1035 §2.3.4: at most 255 octets on the wire
            while out.iter().map(|l| l.len() + 1).sum::<usize>() + 1 > 255 {
                out.remove(0);
            }
            out
        },
    )
}

/// RDATA names additionally include the root
fn rdata_name(origins: Vec<Labels>) -> impl Strategy<Value = Labels> {
    prop_oneof![
        12 => name_in(origins).prop_map(|n| if n.first().is_some_and(|l| l == "*") { n[1..].to_vec() } else { n }),
        1 => Just(Vec::<String>::new()),
    ]
}

// ---------------------------------------------------------------------------------------------
// field values

/// <character-string> of the exact-load domain: printable ASCII plus space, <= 255 octets
fn cstring() -> impl Strategy<Value = String> {
    prop_oneof![
        6 => "[a-zA-Z0-9=._:/+-]{1,16}",
        4 => "[ -~]{0,24}",
        2 => "[a-z \"\\\\;()@$]{1,12}",
        1 => Just(String::new()),
        1 => "v=spf1 (include:[a-z]{1,8}\\.example ){1,3}-all",
        1 => "[ -~]{250,255}",
    ]
}

fn ttl() -> impl Strategy<Value = u32> {
    prop_oneof![
        6 => prop::sample::select(vec![300u32, 3_600, 86_400]),
        3 => 0u32..100_000,
        1 => Just(0u32),
        // RFC 2181 §8: largest legal TTL
        1 => Just(0x7fff_ffffu32),
    ]
}

fn blob(min: usize, max: usize) -> impl Strategy<Value = Blob> {
    vec(any::<u8>(), min..=max).prop_map(Blob)
}

fn v4() -> impl Strategy<Value = [u8; 4]> {
    prop_oneof![3 => any::<[u8; 4]>(), 1 => Just([0, 0, 0, 0]), 1 => Just([255, 255, 255, 255]), 2 => (0u8..=255).prop_map(|x| [192, 0, 2, x])]
}

fn v6() -> impl Strategy<Value = [u16; 8]> {
    prop_oneof![
        3 => any::<[u16; 8]>(),
        3 => (any::<u16>(), any::<u16>()).prop_map(|(a, b)| [0x2001, 0xdb8, 0, 0, 0, 0, a, b]),
        1 => Just([0u16; 8]),
        1 => Just([0, 0, 0, 0, 0, 0, 0, 1]),
        2 => any::<[u16; 8]>().prop_map(|mut g| {
            g[1] = 0;
            g[2] = 0;
            g[5] = 0;
            g[6] = 0;
            g[7] = 0;
            g
        }),
    ]
}

fn u31() -> impl Strategy<Value = u32> {
    prop_oneof![3 => 0u32..100_000, 1 => Just(0u32), 1 => Just(0x7fff_ffffu32), 1 => 0u32..0x8000_0000]
}

fn u32s() -> impl Strategy<Value = u32> {
    prop_oneof![3 => 0u32..100_000, 1 => Just(0u32), 1 => Just(u32::MAX), 2 => any::<u32>(), 1 => 2_020_000_000u32..2_030_000_000]
}

fn svc_params() -> impl Strategy<Value = Vec<SvcParam>> {
    (
        prop::option::weighted(0.6, vec("[a-z][a-z0-9]{0,5}", 1..=3)),
        any::<bool>(),
        prop::option::weighted(0.5, any::<u16>()),
        prop::option::weighted(0.4, vec(v4(), 1..=2)),
        prop::option::weighted(0.4, vec(v6(), 1..=2)),
    )
        .prop_map(|(alpn, nda, port, h4, h6)| {
            let mut p = Vec::new();
            let has_alpn = alpn.is_some();
            if let Some(a) = alpn {
                p.push(SvcParam::Alpn(a));
            }
            // RFC 9460 §7.1.1: no-default-alpn requires alpn
            if nda && has_alpn {
                p.push(SvcParam::NoDefaultAlpn);
            }
            if let Some(x) = port {
                p.push(SvcParam::Port(x));
            }
            if let Some(x) = h4 {
                p.push(SvcParam::V4Hint(x));
            }
            if let Some(x) = h6 {
                p.push(SvcParam::V6Hint(x));
            }
            p
        })
}

fn zdata(origins: Vec<Labels>, extended: bool) -> BoxedStrategy<ZData> {
    let nm = || rdata_name(origins.clone());
    let core = prop_oneof![
        6 => v4().prop_map(ZData::A),
        4 => v6().prop_map(ZData::Aaaa),
        4 => nm().prop_map(ZData::Ns),
        3 => nm().prop_map(ZData::Cname),
        2 => nm().prop_map(ZData::Ptr),
        4 => (any::<u16>(), nm()).prop_map(|(pref, exch)| ZData::Mx { pref, exch }),
        3 => (nm(), nm(), u32s(), u31(), u31(), u31(), u32s()).prop_map(|(mname, rname, serial, refresh, retry, expire, minimum)| ZData::Soa {
            mname,
            rname,
            serial,
            refresh,
            retry,
            expire,
            minimum
        }),
        8 => prop_oneof![5 => vec(cstring(), 1..=3), 1 => vec(cstring(), 4..=12)].prop_map(ZData::Txt),
        3 => (any::<u16>(), any::<u16>(), any::<u16>(), nm()).prop_map(|(prio, weight, port, target)| ZData::Srv { prio, weight, port, target }),
        3 => (prop_oneof![3 => Just(0u8), 2 => Just(128u8), 1 => any::<u8>()], prop_oneof![3 => Just("issue".to_string()), 1 => Just("issuewild".to_string()), 1 => Just("iodef".to_string()), 1 => "[a-z0-9]{1,10}"], cstring())
            .prop_map(|(flags, tag, value)| ZData::Caa { flags, tag, value }),
        2 => (cstring(), cstring()).prop_map(|(cpu, os)| ZData::Hinfo { cpu, os }),
        3 => (any::<u16>(), any::<u16>(), "[a-zA-Z0-9]{0,3}", cstring(), prop_oneof![2 => Just(String::new()), 2 => "![ -~&&[^!]]{1,12}![ -~&&[^!]]{1,12}!i?", 1 => cstring()], nm())
            .prop_map(|(order, pref, flags, services, regexp, replacement)| ZData::Naptr { order, pref, flags, services, regexp, replacement }),
        3 => (any::<u8>(), any::<u8>(), any::<u8>(), blob(1, 64)).prop_map(|(usage, selector, matching, data)| ZData::Tlsa { usage, selector, matching, data }),
        2 => (any::<u8>(), any::<u8>(), blob(1, 64)).prop_map(|(alg, fptype, fp)| ZData::Sshfp { alg, fptype, fp }),
        3 => (any::<u16>(), any::<u8>(), any::<u8>(), blob(1, 64)).prop_map(|(tag, alg, dtype, digest)| ZData::Ds { tag, alg, dtype, digest }),
    ];
    if !extended {
        return core.boxed();
    }
    let types = prop::sample::subsequence(vec![1u16, 2, 5, 6, 12, 15, 16, 28, 33, 35, 43, 44, 52, 257], 1..=5);
    prop_oneof![
        20 => core,
        1 => nm().prop_map(ZData::Aname),
        1 => (any::<u8>(), any::<u8>(), any::<u8>(), blob(1, 48)).prop_map(|(usage, selector, matching, data)| ZData::Smimea { usage, selector, matching, data }),
        1 => (any::<u16>(), any::<u16>(), any::<u8>(), prop_oneof![3 => blob(1, 60), 1 => blob(200, 400)]).prop_map(|(ctype, tag, alg, data)| ZData::Cert { ctype, tag, alg, data }),
        // real OpenPGP keys are kilobytes long: one base64 token of more than 4 KB
        1 => prop_oneof![30 => blob(1, 90), 10 => blob(300, 900), 1 => blob(3_080, 3_400)].prop_map(ZData::Openpgpkey),
        1 => (u32s(), 0u16..=3, types).prop_map(|(serial, flags, types)| ZData::Csync { serial, flags, types }),
        2 => (any::<bool>(), prop_oneof![1 => Just(0u16), 3 => 1u16..=20, 1 => any::<u16>()], nm(), svc_params()).prop_map(|(https, prio, target, params)| {
            // RFC 9460 §2.4.2: AliasMode (priority 0) carries no parameters
            let params = if prio == 0 { vec![] } else { params };
            ZData::Svcb { https, prio, target, params }
        }),
    ]
    .boxed()
}

// ---------------------------------------------------------------------------------------------
// layout

fn comment() -> impl Strategy<Value = String> {
    prop_oneof![4 => "[a-zA-Z0-9 ]{0,20}", 2 => "[ -~]{0,30}", 1 => "[\"();\\\\@$ ]{1,8}"]
}

fn opt_comment(p: f64) -> impl Strategy<Value = Option<String>> {
    prop::option::weighted(p, comment())
}

fn rr_layout() -> impl Strategy<Value = RrLayout> {
    (
        prop_oneof![3 => Just(OwnerStyle::Abs), 4 => Just(OwnerStyle::Rel), 2 => Just(OwnerStyle::At), 4 => Just(OwnerStyle::Inherit)],
        prop::bool::weighted(0.4),
        prop::bool::weighted(0.5),
        prop::bool::weighted(0.3),
        any::<u64>(),
        prop_oneof![
            7 => Just(Paren::None),
            3 => (0u8..8, 0u8..12, any::<u16>(), opt_comment(0.3)).prop_map(|(open, close, breaks, comment)| Paren::Wrap { open, close, breaks, comment }),
        ],
        opt_comment(0.25),
        prop_oneof![
            400 => Just(LongRun::None),
            1 => (0u16..2_000).prop_map(LongRun::Comment),
            1 => (0u16..2_000).prop_map(LongRun::Blanks),
        ],
    )
        .prop_map(|(owner, ttl_explicit, class_explicit, class_first, bits, paren, comment, long)| RrLayout {
            owner,
            ttl_explicit,
            class_explicit,
            class_first,
            bits,
            paren,
            comment,
            long,
        })
}

/// enforce the domain: one TTL per RRset, no duplicate RRs, one SOA per file, one CNAME/ANAME per owner
fn normalise(items: Vec<Item>) -> Vec<Item> {
    let mut rrset_ttl: BTreeMap<(Labels, &'static str), u32> = BTreeMap::new();
    let mut seen = std::collections::BTreeSet::new();
    let mut soa = false;
    let mut out = Vec::with_capacity(items.len());
    for it in items {
        match it {
            Item::Rr { mut rec, lay } => {
                let owner_lc: Labels = rec.owner.iter().map(|s| s.to_ascii_lowercase()).collect();
                let ty = rec.data.type_mnemonic();
                if ty == "SOA" {
                    if soa {
                        continue;
                    }
                    soa = true;
                }
                let single = ty == "CNAME" || ty == "ANAME";
                let key = (owner_lc, ty);
                if let Some(t) = rrset_ttl.get(&key) {
                    if single {
                        continue;
                    }
                    rec.ttl = *t;
                } else {
                    rrset_ttl.insert(key, rec.ttl);
                }
                if !seen.insert(rec.flat()) {
                    continue;
                }
                out.push(Item::Rr { rec, lay });
            }
            other => out.push(other),
        }
    }
    out
}

pub fn zone_file(tier: Tier, extended: bool) -> impl Strategy<Value = ZoneFile> {
    let max_rr = match tier {
        Tier::Quick => 10usize,
        Tier::Thorough => 16usize,
    };
    (origin(), vec(origin(), 0..=2)).prop_flat_map(move |(zone_origin, more)| {
        let mut origins = vec![zone_origin.clone()];
        origins.extend(more);
        let o2 = origins.clone();
        let o3 = origins.clone();
        let rr = (name_in(origins.clone()), ttl(), zdata(origins.clone(), extended), rr_layout(), 0u8..4).prop_map(|(owner, ttl, data, lay, repeat)| (owner, ttl, data, lay, repeat));
        let item = prop_oneof![
            16 => rr.prop_map(|(owner, ttl, data, lay, repeat)| (Some((owner, ttl, data, lay)), repeat, None)),
            2 => (prop::sample::select(o2), opt_comment(0.2)).prop_map(|(name, comment)| (None, 0u8, Some(Item::Origin { name, comment }))),
            3 => (prop_oneof![3 => prop::sample::select(vec![300u32, 3_600, 86_400]), 1 => ttl()], opt_comment(0.2)).prop_map(|(ttl, comment)| (None, 0u8, Some(Item::Ttl { ttl, comment }))),
            2 => (0u8..4, opt_comment(0.6)).prop_map(|(indent, comment)| (None, 0u8, Some(Item::Blank { indent, comment }))),
        ];
        (Just(zone_origin), vec(item, 1..=max_rr), vec((zdata(o3, extended), rr_layout()), 0..=6), prop::bool::weighted(0.15), prop::bool::weighted(0.85)).prop_map(
            |(origin, raw, extra, crlf, final_newline)| {
                // `repeat` > 0 turns an RR into a run of RRs at the same owner with the same TTL
                // (so that owner / TTL inheritance is actually usable); the data of the followers
                // comes from `extra`
                let mut extra = extra.into_iter();
                let mut items = Vec::new();
                for (rr, repeat, other) in raw {
                    if let Some(o) = other {
                        items.push(o);
                    }
                    if let Some((owner, ttl, data, lay)) = rr {
                        items.push(Item::Rr {
                            rec: ZRec { owner: owner.clone(), ttl, data },
                            lay,
                        });
                        for _ in 0..repeat.min(2) {
                            if let Some((data, lay)) = extra.next() {
                                items.push(Item::Rr {
                                    rec: ZRec { owner: owner.clone(), ttl, data },
                                    lay,
                                });
                            }
                        }
                    }
                }
                ZoneFile {
                    origin,
                    items: normalise(items),
                    crlf,
                    final_newline,
                }
            },
        )
    })
}

// ---------------------------------------------------------------------------------------------
// garbage for the robustness clause

/// vocabulary for token soup: everything that has a meaning somewhere in the lexer / parser
const VOCAB: &[&str] = &[
    "$ORIGIN", "$TTL", "$INCLUDE", "$", "$FOO", "@", "(", ")", "\"", ";", "\\", "\\.", "\\\"", "\\\\", "\\065", "\\999", "\\1", "IN", "CH", "HS", "NONE", "ANY", "CLASS1", "CLASS65536",
    "A", "AAAA", "NS", "CNAME", "SOA", "MX", "TXT", "SRV", "PTR", "CAA", "HINFO", "NAPTR", "TLSA", "SSHFP", "DS", "DNSKEY", "RRSIG", "NSEC", "NSEC3", "NSEC3PARAM", "OPT", "TSIG", "AXFR",
    "IXFR", "NULL", "ANAME", "CERT", "CSYNC", "HTTPS", "SVCB", "OPENPGPKEY", "SMIMEA", "TYPE0", "TYPE1", "TYPE65535", "TYPE65536", "TYPE", "ZERO", "SIG", "KEY", "CDS", "CDNSKEY",
    "example.com.", "www", "*", "*.example.com.", "a..b", ".", "..", "-", "_srv._tcp", "xn--a", "xn--", "1.2.3.4", "999.1.1.1", "::1", "2001:db8::1", ":::", "1", "0", "-1", "65535", "65536",
    "4294967295", "4294967296", "99999999999999999999999999999", "1h", "1w2d3h4m5s", "1x", "4294967295w", "\"quoted string\"", "\"unterminated", "abc\"def", "\"\"", "alpn=h2,h3",
    "port=443", "port=", "alpn=", "alpn=\"", "port=\"", "key1=\"", "alpn=,h2", "alpn=h2,", "alpn=@", "alpn=\"h2\"", "alpn=a\\,b", "ipv4hint=1.2.3.4", "ipv4hint=,", "ipv6hint=", "mandatory=,", "mandatory=port,port", "key65535=x", "mandatory=alpn", "no-default-alpn=1", "ech=AAAA", "issue", "0x10", "deadbeef", "DEADBEEF", "abc", "AQID", "AQID==", "====",
    "\t", " ", "  ", "\n", "\r\n", "\r", "\n ", "\n\n",
];

fn soup() -> impl Strategy<Value = String> {
    vec(prop_oneof![8 => prop::sample::select(VOCAB).prop_map(|s| s.to_string()), 1 => "[ -~]{1,8}", 1 => "\\PC{1,4}"], 0..60)
        .prop_flat_map(|toks| {
            let n = toks.len();
            (Just(toks), vec(prop_oneof![5 => Just(" "), 2 => Just("\n"), 1 => Just("\t"), 1 => Just(""), 1 => Just("\r\n")], n))
        })
        .prop_map(|(toks, seps)| {
            let mut s = String::new();
            for (t, sp) in toks.iter().zip(seps) {
                s.push_str(t);
                s.push_str(sp);
            }
            s
        })
}

#[derive(Clone, Debug)]
enum Mut {
    Delete(usize, usize),
    Insert(usize, String),
    Replace(usize, char),
    DupLine(usize),
    SwapLines(usize, usize),
    Truncate(usize),
}

fn mutation() -> impl Strategy<Value = Mut> {
    let ins = prop_oneof![
        6 => prop::sample::select(vec!["\"", "(", ")", ";", "\\", "\\0", "$", "@", "\n", " ", "\t", "\r", ".", "..", "99999999999", "$INCLUDE x", "$ORIGIN", "$TTL", "\0", "\u{7f}", "\u{a0}", "\u{2028}", "é", "\u{feff}"]).prop_map(|s| s.to_string()),
        1 => "\\PC{1,3}",
    ];
    prop_oneof![
        3 => (any::<usize>(), 1usize..6).prop_map(|(a, n)| Mut::Delete(a, n)),
        5 => (any::<usize>(), ins).prop_map(|(a, s)| Mut::Insert(a, s)),
        2 => (any::<usize>(), any::<char>()).prop_map(|(a, c)| Mut::Replace(a, c)),
        1 => any::<usize>().prop_map(Mut::DupLine),
        1 => (any::<usize>(), any::<usize>()).prop_map(|(a, b)| Mut::SwapLines(a, b)),
        1 => any::<usize>().prop_map(Mut::Truncate),
    ]
}

fn char_floor(s: &str, mut i: usize) -> usize {
    i = i.min(s.len());
    while !s.is_char_boundary(i) {
        i -= 1;
    }
    i
}

fn apply(mut s: String, m: &Mut) -> String {
    match m {
        Mut::Delete(a, n) => {
            if !s.is_empty() {
                let i = char_floor(&s, a % s.len());
                let j = char_floor(&s, (i + n).min(s.len()));
                s.replace_range(i..j.max(i), "");
            }
        }
        Mut::Insert(a, t) => {
            let i = char_floor(&s, a % (s.len() + 1));
            s.insert_str(i, t);
        }
        Mut::Replace(a, c) => {
            if !s.is_empty() {
                let i = char_floor(&s, a % s.len());
                let j = i + s[i..].chars().next().map(|c| c.len_utf8()).unwrap_or(0);
                s.replace_range(i..j, &c.to_string());
            }
        }
        Mut::DupLine(a) => {
            let lines: Vec<&str> = s.split_inclusive('\n').collect();
            if !lines.is_empty() {
                let k = a % lines.len();
                let mut out = String::new();
                for (i, l) in lines.iter().enumerate() {
                    out.push_str(l);
                    if i == k {
                        out.push_str(l);
                    }
                }
                s = out;
            }
        }
        Mut::SwapLines(a, b) => {
            let mut lines: Vec<String> = s.split_inclusive('\n').map(|l| l.to_string()).collect();
            if lines.len() >= 2 {
                let (i, j) = (a % lines.len(), b % lines.len());
                lines.swap(i, j);
                s = lines.concat();
            }
        }
        Mut::Truncate(a) => {
            if !s.is_empty() {
                let i = char_floor(&s, a % s.len());
                s.truncate(i);
            }
        }
    }
    s
}

/// (text, class label). All texts are <= 64 KB.
pub fn garbage(tier: Tier) -> impl Strategy<Value = (String, String)> {
    let mutated = (zone_file(tier, true), vec(mutation(), 1..=4)).prop_map(|(z, muts)| {
        let (mut text, _) = crate::refm::zonefile_printer::print(&z, &Default::default());
        for m in &muts {
            text = apply(text, m);
        }
        (text, "mutated-rendering".to_string())
    });
    let unbalanced = (vec("[a-z0-9. ]{0,10}", 1..8), vec(prop::sample::select(vec!["\"", "(", ")", "(\n", "\"\n", "\\\"", "( \"", "\" )", "((", "))"]), 1..6)).prop_map(|(a, b)| {
        let mut s = String::from("$ORIGIN example.com.\n@ 300 IN TXT ");
        for (i, x) in a.iter().enumerate() {
            s.push_str(x);
            if let Some(y) = b.get(i) {
                s.push_str(y);
            }
        }
        (s, "unbalanced-quotes-parens".to_string())
    });
    let huge = (prop::sample::select(vec!["A", "MX", "SOA", "SRV", "TXT", "TLSA", "DS", "CAA", "NAPTR", "SSHFP", "CSYNC", "CERT", "HTTPS"]), vec(prop_oneof![2 => "[0-9]{1,40}", 1 => "-[0-9]{1,12}", 1 => "[0-9]{1,12}[smhdwSMHDW]", 1 => "([0-9]{1,11}[smhdw]){1,6}", 1 => "[a-z.]{1,10}"], 0..10), "[0-9]{1,30}[smhdw]?")
        .prop_map(|(ty, fields, ttl)| (format!("$TTL {ttl}\nx.example.com. {ttl} IN {ty} {}\n", fields.join(" ")), "huge-numbers".to_string()));
    let include = (prop_oneof![
        3 => "[a-z./]{1,12}".prop_map(|p| p.trim_start_matches('/').to_string()),
        1 => "[a-z]{1,6}".prop_map(|p| format!("/nonexistent-verif/{p}")),
        1 => Just(String::new()),
        1 => Just("\"a b\"".to_string()),
    ], prop_oneof![2 => Just(String::new()), 1 => Just(" example.com.".to_string()), 1 => Just(" ; c".to_string()), 1 => Just(" (".to_string())], 1usize..4)
        .prop_map(|(p, tail, n)| {
            let mut s = String::new();
            for _ in 0..n {
                s.push_str(&format!("$INCLUDE {p}{tail}\n"));
            }
            s.push_str("a 1 IN A 1.2.3.4\n");
            (s, "$INCLUDE".to_string())
        });
    let utf8 = "\\PC{0,200}".prop_map(|s| (s, "random-utf8".to_string()));
    let anychars = vec(any::<char>(), 0..200).prop_map(|v| (v.into_iter().collect::<String>(), "random-chars-incl-controls".to_string()));
    let lossy = vec(any::<u8>(), 0..400).prop_map(|b| (String::from_utf8_lossy(&b).into_owned(), "random-bytes-lossy".to_string()));
    let ascii = vec(prop::sample::select(&b" \t\n\r\"();\\$@.0123456789aAzZ*_-IN"[..]), 0..300).prop_map(|b| (String::from_utf8(b).unwrap(), "ascii-specials".to_string()));
    // runs close to the lexer's per-token iteration limit and up to 64 KB
    let long = (prop_oneof![3 => 4_000usize..4_200, 1 => 8_000usize..9_000, 1 => 60_000usize..64_000], 0u8..6, prop::sample::select(vec!['a', ' ', ';', '"', '(', '\\', '.', '1'])).prop_map(|(n, place, ch)| {
        let run: String = std::iter::repeat(ch).take(n).collect();
        let s = match place {
            0 => format!("a 1 IN TXT {run}\n"),
            1 => format!("a 1 IN TXT \"{run}\"\n"),
            2 => format!("a 1 IN TXT x ; {run}\n"),
            3 => format!("a 1 IN TXT ( {run} )\n"),
            4 => format!("{run} 1 IN A 1.2.3.4\n"),
            _ => format!("a {run} IN A 1.2.3.4\n"),
        };
        (s, "long-run".to_string())
    });
    // every RDATA parser gets 0-8 arbitrary vocabulary tokens after a well-formed RR head
    let typed = (
        prop::sample::select(vec![
            "A", "AAAA", "ANAME", "CAA", "CERT", "CNAME", "CSYNC", "HINFO", "HTTPS", "SVCB", "MX", "NAPTR", "NS", "OPENPGPKEY", "PTR", "SMIMEA", "SOA", "SRV", "SSHFP", "TLSA", "TXT", "DS", "DNSKEY",
            "NULL", "ZERO", "ANY", "TYPE1",
        ]),
        vec(prop_oneof![6 => prop::sample::select(VOCAB).prop_map(|s| s.to_string()), 1 => "[ -~&&[^ ]]{1,10}", 1 => "[a-z0-9]+=[ -~&&[^ ]]{0,10}"], 0..=8),
        any::<bool>(),
    )
        .prop_map(|(ty, toks, paren)| {
            let body = toks.join(" ");
            let s = if paren { format!("x 1 IN {ty} ( {body} )\n") } else { format!("x 1 IN {ty} {body}\n") };
            (s, "typed-field-soup".to_string())
        });
    prop_oneof![
        8 => mutated,
        4 => typed,
        5 => soup().prop_map(|s| (s, "token-soup".to_string())),
        2 => unbalanced,
        2 => huge,
        1 => include,
        2 => utf8,
        1 => anychars,
        2 => lossy,
        2 => ascii,
        1 => long,
    ]
}
