//! Small DNSSEC hierarchies for C07: root -> `t.` -> `l.t.` (+ optional sibling `s.t.`), each zone
//! signed or not, NSEC or NSEC3, 1-3 keys, DS for a subset of the keys, trust anchor at the root
//! or at a lower zone; plus the *reference status model* (RFC 4035 section 4.3 / 5.2, RFC 6840
//! section 5.2) that says, from the shape alone, whether a name is Secure or Insecure.
//!
//! Everything here is plain data (serde) + proptest strategies; building the zones and talking to
//! hickory lives in checks/c07.rs.

use proptest::prelude::*;
use serde::{Deserialize, Serialize};

#[derive(Clone, Copy, Debug, PartialEq, Eq, Hash, Serialize, Deserialize)]
pub enum Nx {
    Nsec,
    /// NSEC3, SHA-1, no opt-out
    Nsec3 { salt_len: u8, iterations: u8 },
}

/// what the parent publishes as DS RRset for the keys selected by `ds_mask`
#[derive(Clone, Copy, Debug, PartialEq, Eq, Hash, Serialize, Deserialize)]
pub enum DsKind {
    Sha256,
    Sha384,
    Sha1,
    /// SHA-256 DS and SHA-1 DS for every selected key
    Sha256AndSha1,
    /// only DS records with an unassigned digest type (RFC 6840 5.2: treat as if no DS = insecure)
    UnsupportedDigestOnly,
    /// only DS records with an unassigned key algorithm number (RFC 4035 5.2: insecure)
    UnsupportedAlgOnly,
    /// a supported SHA-256 DS plus an unsupported-digest DS for the same key (must stay Secure)
    Sha256PlusUnsupported,
}

impl DsKind {
    pub fn has_supported(self) -> bool {
        !matches!(self, DsKind::UnsupportedDigestOnly | DsKind::UnsupportedAlgOnly)
    }
}

#[derive(Clone, Debug, PartialEq, Eq, Hash, Serialize, Deserialize)]
pub struct ZoneSpec {
    pub signed: bool,
    pub nx: Nx,
    /// 1..=3 keys; hickory's signer signs every RRset with every key
    pub nkeys: u8,
    /// keys 0 and 1 have the same key tag (needs nkeys >= 2)
    pub collide: bool,
    /// bit i set: the parent publishes a DS for key i. 0 = no DS (insecure delegation)
    pub ds_mask: u8,
    pub ds_kind: DsKind,
    /// the parent additionally publishes a DS for a key that is not in the DNSKEY RRset
    pub stale_ds: bool,
}

impl ZoneSpec {
    pub fn unsigned() -> Self {
        ZoneSpec {
            signed: false,
            nx: Nx::Nsec,
            nkeys: 1,
            collide: false,
            ds_mask: 0,
            ds_kind: DsKind::Sha256,
            stale_ds: false,
        }
    }
    /// does the parent publish any DS RRset for this zone
    pub fn has_ds(&self) -> bool {
        self.ds_mask != 0
    }
}

/// index of a zone in the hierarchy
#[derive(Clone, Copy, Debug, PartialEq, Eq, Hash, Serialize, Deserialize, PartialOrd, Ord)]
pub enum Z {
    Root,
    Tld,
    Leaf,
    Sib,
}

impl Z {
    pub fn idx(self) -> usize {
        match self {
            Z::Root => 0,
            Z::Tld => 1,
            Z::Leaf => 2,
            Z::Sib => 3,
        }
    }
    pub fn origin(self) -> &'static str {
        match self {
            Z::Root => ".",
            Z::Tld => "t.",
            Z::Leaf => "l.t.",
            Z::Sib => "s.t.",
        }
    }
    pub fn parent(self) -> Option<Z> {
        match self {
            Z::Root => None,
            Z::Tld => Some(Z::Root),
            Z::Leaf | Z::Sib => Some(Z::Tld),
        }
    }
}

#[derive(Clone, Copy, Debug, PartialEq, Eq, Hash, Serialize, Deserialize)]
pub struct Anchor {
    pub zone: Z,
    /// which keys of that zone are configured as trust anchors (non-zero)
    pub mask: u8,
}

/// (owner relative to the zone origin, type mnemonic); resolved by the check
#[derive(Clone, Debug, PartialEq, Eq, Hash, Serialize, Deserialize)]
pub struct QuerySpec {
    pub zone: Z,
    /// "" = apex, otherwise a relative owner such as "a" or "z.a"
    pub owner: String,
    /// "A", "AAAA", "TXT", "NS", "SOA", "DNSKEY", "CNAME", "MX", "DS"
    pub qtype: String,
}

#[derive(Clone, Debug, PartialEq, Eq, Hash, Serialize, Deserialize)]
pub struct Scenario {
    pub root: ZoneSpec,
    pub tld: ZoneSpec,
    pub leaf: ZoneSpec,
    pub sib: Option<ZoneSpec>,
    pub anchor: Anchor,
    /// seed for key material
    pub seed: u32,
    pub q: QuerySpec,
    /// how the upstream handle reports negative / failure responses: false = every response is
    /// Ok(DnsResponse) (DnssecClient over a plain client), true = through
    /// `DnsError::from_response` as a name-server pool does (NoRecordsFound / ResponseCode errors)
    #[serde(default)]
    pub err_style: bool,
}

impl Scenario {
    pub fn spec(&self, z: Z) -> Option<&ZoneSpec> {
        match z {
            Z::Root => Some(&self.root),
            Z::Tld => Some(&self.tld),
            Z::Leaf => Some(&self.leaf),
            Z::Sib => self.sib.as_ref(),
        }
    }

    /// is `z` at or below the trust-anchor zone
    pub fn under_anchor(&self, z: Z) -> bool {
        let mut cur = Some(z);
        while let Some(c) = cur {
            if c == self.anchor.zone {
                return true;
            }
            cur = c.parent();
        }
        false
    }

    /// Reference status of data *in zone z* (RFC 4035 4.3): Some(true) = Secure, Some(false) =
    /// Insecure, None = no trust anchor at or above the zone (not generated as a query target).
    ///
    /// * the anchor zone is Secure (its configured keys are in its DNSKEY RRset, which they sign);
    /// * a child of a Secure zone is Secure iff the parent publishes at least one DS with a
    ///   supported algorithm and digest type (RFC 4035 5.2, RFC 6840 5.2) -- by construction such
    ///   a DS always matches a key of the (signed) child;
    /// * no DS, or only unsupported DS  ==> Insecure (the signed parent proves it);
    /// * a child of an Insecure zone is Insecure (no chain), signed or not.
    pub fn status(&self, z: Z) -> Option<bool> {
        if !self.under_anchor(z) {
            return None;
        }
        if z == self.anchor.zone {
            return Some(true);
        }
        let parent = z.parent().expect("non-anchor zone under the anchor has a parent");
        let ps = self.status(parent)?;
        if !ps {
            return Some(false);
        }
        let spec = self.spec(z)?;
        Some(spec.signed && spec.has_ds() && spec.ds_kind.has_supported())
    }

    pub fn shape(&self) -> String {
        let z = |s: &ZoneSpec| {
            if !s.signed {
                "U".to_string()
            } else {
                format!(
                    "S{}{}{}",
                    s.nkeys,
                    match s.nx {
                        Nx::Nsec => "n",
                        Nx::Nsec3 { .. } => "h",
                    },
                    if s.collide { "c" } else { "" }
                )
            }
        };
        let d = |s: &ZoneSpec| {
            if s.ds_mask == 0 {
                "-".to_string()
            } else {
                format!("ds{:b}{:?}{}", s.ds_mask, s.ds_kind, if s.stale_ds { "+stale" } else { "" })
            }
        };
        format!(
            "root={} t={}[{}] l={}[{}] s={} anchor={:?}/{:b}{}",
            z(&self.root),
            z(&self.tld),
            d(&self.tld),
            z(&self.leaf),
            d(&self.leaf),
            self.sib.as_ref().map(|s| format!("{}[{}]", z(s), d(s))).unwrap_or_else(|| "none".into()),
            self.anchor.zone,
            self.anchor.mask,
            if self.err_style { " upstream=errors" } else { "" }
        )
    }
}

// ---------------------------------------------------------------------------------------------
// strategies

fn nx() -> impl Strategy<Value = Nx> {
    prop_oneof![
        3 => Just(Nx::Nsec),
        1 => (prop_oneof![Just(0u8), Just(1), Just(8)], prop_oneof![Just(0u8), Just(1), Just(5)])
            .prop_map(|(salt_len, iterations)| Nx::Nsec3 { salt_len, iterations }),
    ]
}

fn ds_kind() -> impl Strategy<Value = DsKind> {
    prop_oneof![
        6 => Just(DsKind::Sha256),
        1 => Just(DsKind::Sha384),
        1 => Just(DsKind::Sha1),
        1 => Just(DsKind::Sha256AndSha1),
        1 => Just(DsKind::UnsupportedDigestOnly),
        1 => Just(DsKind::UnsupportedAlgOnly),
        1 => Just(DsKind::Sha256PlusUnsupported),
    ]
}

/// a zone below a parent; `parent_signed` decides whether DS records may be published at all
/// (a DS RRset in an unsigned parent cannot be authenticated and is outside the property)
fn zone_spec(parent_signed: bool, p_signed: u32) -> impl Strategy<Value = ZoneSpec> {
    (
        prop::bool::weighted(p_signed as f64 / 100.0),
        nx(),
        1u8..=3,
        any::<bool>(),
        1u8..=7,
        prop::bool::weighted(0.9),
        ds_kind(),
        prop::bool::weighted(0.2),
    )
        .prop_map(move |(signed, nx, nkeys, collide, mask, publish_ds, ds_kind, stale_ds)| {
            if !signed {
                return ZoneSpec::unsigned();
            }
            let full = (1u8 << nkeys) - 1;
            let mut ds_mask = mask & full;
            if ds_mask == 0 {
                ds_mask = 1;
            }
            if !parent_signed || !publish_ds {
                ds_mask = 0;
            }
            ZoneSpec {
                signed,
                nx,
                nkeys,
                collide: collide && nkeys >= 2,
                ds_mask,
                ds_kind,
                stale_ds: stale_ds && ds_mask != 0 && ds_kind.has_supported(),
            }
        })
}

/// owners / types that exist in the leaf-style zones built by the check (see c07.rs `zone_data`)
pub const LEAF_OWNERS: &[&str] = &["", "a", "b", "c", "ns", "nx", "z.a", "0"];
pub const LEAF_TYPES: &[&str] = &["A", "AAAA", "TXT", "NS", "SOA", "DNSKEY", "CNAME", "MX"];

fn query(zones: Vec<Z>) -> impl Strategy<Value = QuerySpec> {
    let n = zones.len();
    (0..n, 0usize..100, 0usize..100, 0u32..100).prop_map(move |(zi, oi, ti, r)| {
        let zone = zones[zi];
        match zone {
            Z::Leaf | Z::Sib => {
                if r < 10 {
                    // DS of the zone itself: answered by the parent
                    QuerySpec { zone, owner: String::new(), qtype: "DS".into() }
                } else if r < 25 {
                    QuerySpec { zone, owner: String::new(), qtype: "DNSKEY".into() }
                } else if r < 60 {
                    // the data-bearing combinations more often
                    let pos: &[(&str, &str)] =
                        &[("a", "A"), ("a", "TXT"), ("b", "AAAA"), ("c", "A"), ("c", "CNAME"), ("ns", "A"), ("", "NS"), ("", "SOA")];
                    let (o, t) = pos[oi % pos.len()];
                    QuerySpec { zone, owner: o.into(), qtype: t.into() }
                } else {
                    let owner = LEAF_OWNERS[oi % LEAF_OWNERS.len()];
                    let mut qtype = LEAF_TYPES[ti % LEAF_TYPES.len()];
                    // `c` is a CNAME to `a`: only types that `a` has. A CNAME whose target lacks
                    // the type (CNAME + NODATA proof for the target) is rejected by hickory's
                    // validator as Bogus even without faults, because the denial is checked
                    // against the original query name -- a completeness matter outside C07.
                    if owner == "c" && !matches!(qtype, "A" | "TXT" | "CNAME") {
                        qtype = "A";
                    }
                    QuerySpec { zone, owner: owner.into(), qtype: qtype.into() }
                }
            }
            Z::Tld => {
                let qs: &[(&str, &str)] =
                    &[("h", "A"), ("", "SOA"), ("", "DNSKEY"), ("nx", "A"), ("h", "TXT"), ("", "DS"), ("", "NS")];
                let (o, t) = qs[oi % qs.len()];
                QuerySpec { zone, owner: o.into(), qtype: t.into() }
            }
            Z::Root => {
                let qs: &[(&str, &str)] = &[("", "DNSKEY"), ("", "SOA"), ("nx", "A"), ("", "NS")];
                let (o, t) = qs[oi % qs.len()];
                QuerySpec { zone, owner: o.into(), qtype: t.into() }
            }
        }
    })
}

pub fn scenario() -> impl Strategy<Value = Scenario> {
    // root: signed 85 %, never has a DS
    let root = zone_spec(false, 95);
    root.prop_flat_map(|root| {
        let rs = root.signed;
        (Just(root), zone_spec(rs, 90))
    })
    .prop_flat_map(|(root, tld)| {
        let ts = tld.signed;
        (
            Just(root),
            Just(tld),
            zone_spec(ts, 85),
            prop::option::weighted(0.6, zone_spec(ts, 50)),
            any::<u32>(),
            0u32..100,
            1u8..=7,
        )
    })
    .prop_flat_map(|(root, tld, leaf, sib, seed, ar, amask)| {
        // trust anchor: the root mostly; a lower signed zone sometimes
        let mut cands: Vec<Z> = vec![];
        if root.signed {
            cands.push(Z::Root);
        }
        if tld.signed {
            cands.push(Z::Tld);
        }
        if leaf.signed {
            cands.push(Z::Leaf);
        }
        let zone = if cands.is_empty() {
            None
        } else if cands[0] == Z::Root && ar < 75 {
            Some(Z::Root)
        } else {
            Some(cands[(ar as usize) % cands.len()])
        };
        let (root, zone) = match zone {
            Some(z) => (root, z),
            None => {
                // nothing signed at all: sign the root so that there is an anchor
                let mut r = root;
                r.signed = true;
                (r, Z::Root)
            }
        };
        let nkeys = match zone {
            Z::Root => root.nkeys,
            Z::Tld => tld.nkeys,
            Z::Leaf => leaf.nkeys,
            Z::Sib => unreachable!(),
        };
        let full = (1u8 << nkeys) - 1;
        // a partial key set as anchor only at the root: below the root hickory asks the parent
        // for DS whenever some DNSKEY is not an anchor, which fails closed when the parent cannot
        // be validated -- a completeness matter outside the property.
        let mask = if zone == Z::Root {
            let m = amask & full;
            if m == 0 {
                1
            } else {
                m
            }
        } else {
            full
        };
        let anchor = Anchor { zone, mask };
        let mut targets = vec![];
        for z in [Z::Root, Z::Tld, Z::Leaf, Z::Leaf, Z::Leaf, Z::Leaf, Z::Sib] {
            let exists = z != Z::Sib || sib.is_some();
            let tmp = Scenario {
                root: root.clone(),
                tld: tld.clone(),
                leaf: leaf.clone(),
                sib: sib.clone(),
                anchor,
                seed: 0,
                q: QuerySpec { zone: z, owner: String::new(), qtype: "A".into() },
                err_style: false,
            };
            if exists && tmp.under_anchor(z) {
                targets.push(z);
            }
        }
        (Just(root), Just(tld), Just(leaf), Just(sib), Just(anchor), Just(seed), query(targets), prop::bool::weighted(0.3), prop::bool::weighted(0.5))
    })
    .prop_map(|(root, tld, leaf, sib, anchor, seed, q, err_style, force_secure)| {
        let mut sc = Scenario { root, tld, leaf, sib, anchor, seed, q, err_style };
        if force_secure {
            // the property is about Secure chains: make every link from the anchor down to the
            // queried zone a secure delegation in half of the scenarios (the other half keeps the
            // free mix of islands, unsigned zones and unsupported DS)
            let mut z = sc.q.zone;
            while z != sc.anchor.zone {
                let spec = match z {
                    Z::Tld => &mut sc.tld,
                    Z::Leaf => &mut sc.leaf,
                    Z::Sib => sc.sib.as_mut().expect("query targets an existing zone"),
                    Z::Root => break,
                };
                if !spec.signed {
                    *spec = ZoneSpec { signed: true, nx: Nx::Nsec, nkeys: 1 + (sc.seed % 3) as u8, collide: false, ds_mask: 1, ds_kind: DsKind::Sha256, stale_ds: false };
                }
                if spec.ds_mask == 0 {
                    spec.ds_mask = 1;
                }
                if !spec.ds_kind.has_supported() {
                    spec.ds_kind = DsKind::Sha256;
                }
                match z.parent() {
                    Some(p) => z = p,
                    None => break,
                }
            }
        }
        // hickory's authoritative NSEC3 code produces no proof at all for names directly under
        // the root (closest_encloser_proof stops at the root); the real root uses NSEC anyway
        sc.root.nx = Nx::Nsec;
        // A DS RRset is published only where the parent is Secure per the model: hickory fails
        // closed (Bogus instead of Insecure) on a DS RRset sitting in an *insecure* signed parent,
        // which is a completeness matter outside the property.
        for z in [Z::Tld, Z::Leaf, Z::Sib] {
            let parent_secure = z.parent().is_some_and(|p| sc.status(p) == Some(true));
            let above_anchor = !sc.under_anchor(z) || z == sc.anchor.zone;
            if !parent_secure && !above_anchor {
                let spec = match z {
                    Z::Tld => Some(&mut sc.tld),
                    Z::Leaf => Some(&mut sc.leaf),
                    Z::Sib => sc.sib.as_mut(),
                    Z::Root => None,
                };
                if let Some(spec) = spec {
                    spec.ds_mask = 0;
                    spec.stale_ds = false;
                }
            }
        }
        sc
    })
    .prop_filter("DS query for the anchor zone itself has no authenticated answer", |s| {
        // `<anchor zone> DS` is answered by the parent, which is above the anchor
        !(s.q.qtype == "DS" && s.q.owner.is_empty() && s.q.zone == s.anchor.zone)
    })
}
