//! Generators for RFC 2136 UPDATE histories over a small name / RDATA universe (DESIGN §5.1):
//! prerequisite and update RRs drawn from every row of tables 3.2.4 and 3.4.2.6 — class ∈ {zone,
//! ANY, NONE, other}, type ∈ {A, TXT, NS, CNAME, SOA, ANY, AXFR}, ttl ∈ {0, >0}, rdata empty /
//! non-empty — incl. out-of-zone names, apex SOA/NS, serials near 2^31 and 2^32−1.

use proptest::collection::vec;
use proptest::prelude::*;
use serde::{Deserialize, Serialize};

use crate::refm::canon;
use crate::refm::update_ref::*;

pub const ORIGIN: &str = "zone.test.";

pub fn origin() -> Labels {
    labels_of(ORIGIN)
}

/// owner names of the universe; index 0 is the apex
pub const NAMES: [&str; 14] = [
    "zone.test.",     // 0 apex
    "a.zone.test.",   // 1
    "A.zone.test.",   // 2 case variant of 1
    "b.zone.test.",   // 3
    "*.zone.test.",   // 4 wildcard
    "c.a.zone.test.", // 5 child of a (a may become an empty non-terminal)
    "d.zone.test.",   // 6 delegation candidate
    "e.d.zone.test.", // 7 below d
    "ZONE.test.",     // 8 apex, other case
    "f.zone.test.",   // 9 plain, used rarely (covered by the wildcard when absent)
    "test.",          // 10 parent: out of zone
    "other.test.",    // 11 sibling: out of zone
    "azone.test.",    // 12 string-suffix but not label-suffix: out of zone
    ".",              // 13 root: out of zone
];
pub const N_IN_ZONE: usize = 10;

pub fn name(i: usize) -> Labels {
    labels_of(NAMES[i % NAMES.len()])
}

pub const SERIALS: [u32; 12] = [
    7,
    1_000,
    1,
    100,
    0x7fff_fffe,
    0x7fff_ffff,
    0x8000_0000,
    0x8000_0001,
    0xffff_fffe,
    0xffff_ffff,
    0,
    2_000_000_000,
];

/// RDATA universe per type; `i` picks the variant
pub fn rdata_for(rtype: u16, i: usize) -> Vec<u8> {
    match rtype {
        T_A => vec![192, 0, 2, 1 + (i % 3) as u8],
        T_TXT => match i % 3 {
            0 => vec![1, b'x'],
            1 => vec![1, b'y'],
            _ => vec![2, b'x', b'y', 1, b'z'],
        },
        T_NS => name_wire(&labels_of(["ns1.zone.test.", "ns2.zone.test.", "ns.other.test."][i % 3])),
        T_CNAME => name_wire(&labels_of(["a.zone.test.", "b.zone.test.", "t.other.test."][i % 3])),
        T_SOA => soa_rdata(
            &labels_of("ns1.zone.test."),
            &labels_of("admin.zone.test."),
            SERIALS[i % SERIALS.len()],
            3600,
            600,
            86400,
            if (i / SERIALS.len()) % 2 == 0 { 60 } else { 120 },
        ),
        T_PRIV => vec![0xC0 + (i % 3) as u8, 7, 7],
        // key tag, algorithm 13, digest type 2, 32 digest octets
        T_DS => {
            let mut v = vec![0x30 + (i % 3) as u8, 0x39, 13, 2];
            v.extend(std::iter::repeat(0xD0 + (i % 3) as u8).take(32));
            v
        }
        // ANY / AXFR / others: opaque octets (never valid in a zone)
        _ => vec![1, 2, 3, 4],
    }
}

#[derive(Clone, Debug, Serialize, Deserialize)]
pub struct InitZone {
    pub serial: u32,
    /// one or two apex NS
    pub two_ns: bool,
    /// further RRs: (name index, type, rdata variant, ttl); inserted with the RFC add rules so the
    /// zone is well formed (no CNAME beside other data, no SOA/NS games at the apex)
    pub extra: Vec<(usize, u16, usize, u32)>,
}

impl InitZone {
    pub fn build(&self) -> Zone {
        let o = origin();
        let mut z = Zone::new(&o);
        z.insert(
            &o,
            T_SOA,
            300,
            &soa_rdata(&labels_of("ns1.zone.test."), &labels_of("admin.zone.test."), self.serial, 3600, 600, 86400, 60),
        );
        z.insert(&o, T_NS, 300, &rdata_for(T_NS, 0));
        if self.two_ns {
            z.insert(&o, T_NS, 300, &rdata_for(T_NS, 1));
        }
        for (ni, t, ri, ttl) in &self.extra {
            let n = name(*ni % N_IN_ZONE);
            if *t == T_SOA || z.is_apex(&n) && *t == T_NS {
                continue;
            }
            let types = z.types_at(&n);
            if *t == T_CNAME {
                if !types.is_empty() {
                    continue;
                }
            } else if types.contains(&T_CNAME) {
                continue;
            }
            // one TTL per RRset in the initial zone (RFC 2181 §5.2)
            let ttl = z.rrset(&n, *t).values().next().copied().unwrap_or(*ttl);
            z.insert(&n, *t, ttl, &rdata_for(*t, *ri));
        }
        z
    }
}

fn serial_strategy(allow_max: bool) -> impl Strategy<Value = u32> {
    // 2^32-1 is kept rare: the first serial bump from there ends the history (known finding)
    prop_oneof![30 => 0usize..SERIALS.len(), 1 => Just(usize::MAX)].prop_map(move |i| {
        let s = if i == usize::MAX { u32::MAX } else { SERIALS[i] };
        if s == u32::MAX && (!allow_max || i != usize::MAX) {
            0xffff_fff0
        } else {
            s
        }
    })
}

pub fn init_zone(allow_max_serial: bool) -> impl Strategy<Value = InitZone> {
    let extra = (
        prop_oneof![4 => 1usize..N_IN_ZONE, 1 => Just(0usize)],
        prop_oneof![5 => Just(T_A), 3 => Just(T_TXT), 2 => Just(T_NS), 2 => Just(T_CNAME), 1 => Just(T_PRIV), 1 => Just(T_DS)],
        0usize..3,
        prop_oneof![Just(300u32), Just(600u32)],
    );
    (serial_strategy(allow_max_serial), any::<bool>(), vec(extra, 0..8)).prop_map(|(serial, two_ns, extra)| InitZone { serial, two_ns, extra })
}

fn name_idx() -> impl Strategy<Value = usize> {
    prop_oneof![
        6 => Just(0usize),
        10 => Just(1usize),
        3 => Just(2usize),
        8 => Just(3usize),
        3 => Just(4usize),
        3 => Just(5usize),
        3 => Just(6usize),
        2 => Just(7usize),
        2 => Just(8usize),
        3 => Just(9usize),
        1 => 10usize..14,
    ]
}

fn rrset_type() -> impl Strategy<Value = u16> {
    prop_oneof![
        35 => Just(T_A),
        17 => Just(T_TXT),
        15 => Just(T_NS),
        15 => Just(T_CNAME),
        9 => Just(T_SOA),
        8 => Just(T_PRIV),
        6 => Just(T_DS),
    ]
}

/// rows of RFC 2136 table 3.2.4 (prerequisites) and 3.4.2.6 (updates)
#[derive(Clone, Copy, Debug)]
enum Row {
    AnyAny,
    AnyRrset,
    NoneAny,
    NoneRrset,
    NoneRr,
    ZoneRr,
}

/// one RR for the prerequisite (`update == false`) or update section: a row of the table, then —
/// rarely — one off-row edit (other class, TTL > 0, RDATA present/absent against the row, meta type)
pub fn urr(update: bool) -> impl Strategy<Value = URr> {
    let row = if update {
        prop_oneof![8 => Just(Row::AnyAny), 20 => Just(Row::AnyRrset), 27 => Just(Row::NoneRr), 45 => Just(Row::ZoneRr)].boxed()
    } else {
        prop_oneof![
            10 => Just(Row::AnyAny),
            25 => Just(Row::AnyRrset),
            10 => Just(Row::NoneAny),
            25 => Just(Row::NoneRrset),
            30 => Just(Row::ZoneRr)
        ]
        .boxed()
    };
    (name_idx(), row, rrset_type(), 0usize..20, 0u32..1000, 0u32..100).prop_map(move |(mut ni, row, rtype, ri, edit, r2)| {
        if rtype == T_SOA && r2 < 85 && !matches!(row, Row::AnyAny | Row::NoneAny) {
            ni = if r2 % 5 == 0 { 8 } else { 0 };
        }
        let (mut class, mut rtype, mut empty) = match row {
            Row::AnyAny => (C_ANY, T_ANY, true),
            Row::AnyRrset => (C_ANY, rtype, true),
            Row::NoneAny => (C_NONE, T_ANY, true),
            Row::NoneRrset => (C_NONE, rtype, true),
            Row::NoneRr => (C_NONE, rtype, false),
            Row::ZoneRr => (C_IN, rtype, false),
        };
        let mut ttl = if matches!(row, Row::ZoneRr) && update { [0u32, 300, 300, 600][(r2 % 4) as usize] } else { 0 };
        // off-row edits: ~7 % of the RRs get exactly one
        match edit {
            0..=14 => class = C_CH,
            15..=29 => ttl = if ttl == 0 { 300 } else { 0 },
            30..=44 => empty = !empty,
            45..=54 => rtype = T_AXFR,
            55..=64 => rtype = T_ANY,
            65..=69 => {
                rtype = T_ANY;
                empty = false;
            }
            _ => {}
        }
        let rdata = if empty { vec![] } else { rdata_for(rtype, ri) };
        URr {
            name: name(ni),
            rtype,
            class,
            ttl,
            rdata,
        }
    })
}

pub fn umsg() -> impl Strategy<Value = UMsg> {
    (
        prop_oneof![9 => vec(urr(false), 0..1), 8 => vec(urr(false), 1..2), 3 => vec(urr(false), 2..4)],
        prop_oneof![1 => vec(urr(true), 0..1), 5 => vec(urr(true), 1..3), 3 => vec(urr(true), 3..6)],
    )
        .prop_map(|(prereqs, updates)| UMsg { prereqs, updates, full_prereq: None })
}

#[derive(Clone, Debug, Serialize, Deserialize)]
pub struct History {
    pub init: InitZone,
    pub msgs: Vec<UMsg>,
}

pub fn history(max_msgs: usize, allow_max_serial: bool) -> impl Strategy<Value = History> {
    (init_zone(allow_max_serial), vec(umsg(), 1..=max_msgs), vec(any::<u32>(), 24)).prop_map(|(init, mut msgs, sel)| {
        // state carried between messages: two thirds of the prerequisite RRs of later messages are
        // re-aimed at an RRset (or name) that an earlier message's update section touched
        let mut si = 0usize;
        for j in 1..msgs.len() {
            let earlier: Vec<(Labels, u16)> = msgs[..j].iter().flat_map(|m| m.updates.iter().map(|r| (r.name.clone(), r.rtype))).collect();
            if earlier.is_empty() {
                continue;
            }
            for rr in &mut msgs[j].prereqs {
                let s = sel[si % sel.len()] as usize;
                si += 1;
                if s % 3 == 0 {
                    continue;
                }
                let (n, t) = &earlier[(s / 3) % earlier.len()];
                rr.name = n.clone();
                if rr.rtype != T_ANY && rr.rtype != T_AXFR && *t != T_ANY && *t != T_AXFR {
                    rr.rtype = *t;
                    if !rr.rdata.is_empty() {
                        rr.rdata = rdata_for(*t, s / 7);
                    }
                }
            }
        }
        // one message in five (not the first) checks complete RRsets before updating
        for j in 1..msgs.len() {
            let s = sel[(si + j) % sel.len()];
            if s % 5 == 0 {
                msgs[j].full_prereq = Some(FullPrereq {
                    first: (s >> 8) as u8,
                    second: if (s >> 4) % 4 != 0 { Some((s >> 16) as u8) } else { None },
                    order: ((s >> 24) % 4) as u8,
                });
            }
        }
        History { init, msgs }
    })
}

/// row of RFC 2136 table 3.2.4 / 3.4.2.6 an RR falls on (or how it is off the table)
pub fn row_label(rr: &URr, update: bool) -> String {
    let c = match rr.class {
        C_IN => "zone",
        C_ANY => "ANY",
        C_NONE => "NONE",
        _ => "other",
    };
    let t = match rr.rtype {
        T_ANY => "ANY",
        T_AXFR => "AXFR",
        _ => "rrset",
    };
    let r = if rr.rdata.is_empty() { "empty" } else { "rr" };
    let ttl = if rr.ttl == 0 { "ttl0" } else { "ttl>0" };
    format!("{}:{c}/{t}/{r}/{ttl}", if update { "upd" } else { "pre" })
}

pub fn show_history(h: &History) -> String {
    let z = h.init.build();
    let mut s = format!("ZONE {{ {}}}", z.show());
    for (i, m) in h.msgs.iter().enumerate() {
        s.push_str(&format!(" #{i} {}", m.show()));
    }
    s
}

pub fn in_zone_names() -> Vec<Labels> {
    (0..N_IN_ZONE).map(name).map(|n| canon::lower(&n)).collect::<std::collections::BTreeSet<_>>().into_iter().collect()
}
