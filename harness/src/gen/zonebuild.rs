//! Glue between the zone model (`refm::zonemodel`) and hickory types, shared by C08 and C09:
//! * model NSEC / NSEC3 records -> `(Name, NSEC)` / `(Name, NSEC3)` as the validator sees them;
//! * claim -> the `answers` slice of a wildcard-expanded response;
//! * model zone -> hickory's own signed `InMemoryZoneHandler` behind a `Catalog`, queried
//!   through `Catalog::handle_request` with a capturing `ResponseHandler`;
//! * the end-to-end path through the real `DnssecDnsHandle`.

use std::net::SocketAddr;
use std::pin::Pin;
use std::sync::{Arc, Mutex};

use futures_util::stream::{self, Stream};
use hickory_net::runtime::Time;
use hickory_net::xfer::{DnsHandle, Protocol};
use hickory_net::NetError;
use hickory_proto::dnssec::crypto::Ed25519SigningKey;
use hickory_proto::dnssec::rdata::{DNSSECRData, SigInput, DNSKEY, DS, NSEC, NSEC3, RRSIG};
use hickory_proto::dnssec::{
    Algorithm, DigestType, DnssecSigner, Nsec3HashAlgorithm, Proof, PublicKeyBuf, SigningKey, TrustAnchors,
};
use hickory_proto::op::{DnsRequest, DnsResponse, Edns, Message, MessageType, OpCode, Query};
use hickory_proto::rr::rdata::{A, CNAME, MX, NS, SOA, TXT};
use hickory_proto::rr::{LowerName, Name, RData, Record, RecordType, SerialNumber};
use hickory_proto::serialize::binary::BinEncoder;
use hickory_server::dnssec::NxProofKind;
use hickory_server::server::{Request, RequestHandler, ResponseHandler, ResponseInfo};
use hickory_server::store::in_memory::InMemoryZoneHandler;
use hickory_server::zone_handler::{AxfrPolicy, Catalog, MessageResponse, ZoneHandler, ZoneType};
use rustls_pki_types::PrivatePkcs8KeyDer;

use crate::clock;
use crate::refm::zonemodel::{ty, Nsec3Params, Nsec3Rec, NsecRec, Pos, Zone};
use crate::sim::{SimRt, SimTime};

/// virtual unix time at which fixture zones are signed and validated
pub const T0: u64 = 1_700_000_000;

pub fn to_name(l: &[Vec<u8>]) -> Name {
    let mut n = Name::from_labels(l.iter().map(|x| x.as_slice())).expect("model names are short");
    n.set_fqdn(true);
    n
}

pub fn rtype(t: u16) -> RecordType {
    RecordType::from(t)
}

pub fn hk_nsec(r: &NsecRec) -> (Name, NSEC) {
    (to_name(&r.owner), NSEC::new(to_name(&r.next), r.types.iter().map(|t| rtype(*t))))
}

/// owner = base32hex(hash) prepended to the zone name (RFC 5155 §3)
pub fn hk_nsec3(apex: &[Vec<u8>], p: &Nsec3Params, r: &Nsec3Rec) -> (Name, NSEC3) {
    let label = data_encoding::BASE32_DNSSEC.encode(&r.hash);
    let owner = to_name(apex).prepend_label(label.as_bytes()).expect("hash label fits");
    (
        owner,
        NSEC3::new(
            Nsec3HashAlgorithm::SHA1,
            r.opt_out,
            p.iterations,
            p.salt.clone(),
            r.next_hash.clone(),
            r.types.iter().map(|t| rtype(*t)),
        ),
    )
}

pub fn rdata_for(t: u16) -> RData {
    match t {
        ty::A => RData::A(A::new(192, 0, 2, 1)),
        ty::TXT => RData::TXT(TXT::new(vec!["t".to_string()])),
        ty::CNAME => RData::CNAME(CNAME(Name::from_ascii("target.invalid.").unwrap())),
        ty::MX => RData::MX(MX::new(10, Name::from_ascii("mx.invalid.").unwrap())),
        ty::NS => RData::NS(NS(Name::from_ascii("ns.invalid.").unwrap())),
        ty::AAAA => RData::AAAA(hickory_proto::rr::rdata::AAAA::new(0x2001, 0xdb8, 0, 0, 0, 0, 0, 1)),
        ty::DS => RData::DNSSEC(DNSSECRData::DS(DS::new(
            12345,
            Algorithm::ED25519,
            DigestType::SHA256,
            vec![0xAB; 32],
        ))),
        _ => RData::A(A::new(192, 0, 2, 9)),
    }
}

/// The answer section of a wildcard-expanded response as `verify_nsec*` receives it from
/// `verify_response`: the expanded RRset at qname and its RRSIG (Labels < owner labels), both
/// already marked Secure by the signature check.
pub fn wild_answers(qname: &Name, signer: &Name, answer_type: u16, labels: u8) -> Vec<Record> {
    let mut data = Record::from_rdata(qname.clone(), 3600, rdata_for(answer_type));
    data.proof = Proof::Secure;
    let input = SigInput {
        type_covered: rtype(answer_type),
        algorithm: Algorithm::ED25519,
        num_labels: labels,
        original_ttl: 3600,
        sig_expiration: SerialNumber::new((T0 + 7 * 86400) as u32),
        sig_inception: SerialNumber::new((T0 - 3600) as u32),
        key_tag: 4711,
        signer_name: signer.clone(),
    };
    let mut sig = Record::from_rdata(
        qname.clone(),
        3600,
        RData::DNSSEC(DNSSECRData::RRSIG(RRSIG::from_sig(input, vec![0u8; 64]))),
    );
    sig.proof = Proof::Secure;
    vec![data, sig]
}

// ---------------------------------------------------------------------------------------------
// hickory's own server

#[derive(Clone, Debug)]
pub enum NxKind {
    Nsec,
    Nsec3(Nsec3Params),
}

pub struct HkZone {
    pub catalog: Arc<Catalog>,
    pub apex: Name,
    pub public_key: PublicKeyBuf,
    /// the complete NSEC chain / NSEC3 ring hickory generated for the zone (read from the
    /// handler's record map after signing)
    pub chain_nsec: Vec<(Name, NSEC)>,
    pub chain_nsec3: Vec<(Name, NSEC3)>,
}

const ED25519_PK8: &[u8] = include_bytes!("/repo/tests/test-data/test_configs/dnssec/ed25519.pk8");

/// run `f` under the virtual clock (signing reads `SimTime::current_time()`); re-entrant
pub fn with_virtual_clock<R>(f: impl FnOnce() -> R) -> R {
    if clock::is_virtual() {
        f()
    } else {
        let _g = clock::VirtualClock::start(T0);
        f()
    }
}

/// Build the model zone in hickory: `upsert_mut` every RRset, add the zone signing key, sign with
/// NSEC or NSEC3.
pub fn build_hk_zone(z: &Zone, kind: &NxKind) -> Result<HkZone, String> {
    build_hk_zone_with(z, kind, &[])
}

/// as `build_hk_zone`, with further records (outside the model) added before signing
pub fn build_hk_zone_with(z: &Zone, kind: &NxKind, extra: &[(Name, RData)]) -> Result<HkZone, String> {
    with_virtual_clock(|| {
        let apex = to_name(&z.apex);
        let nx = match kind {
            NxKind::Nsec => NxProofKind::Nsec,
            NxKind::Nsec3(p) => NxProofKind::Nsec3 {
                algorithm: Nsec3HashAlgorithm::SHA1,
                salt: Arc::from(p.salt.clone().into_boxed_slice()),
                iterations: p.iterations,
                opt_out: p.opt_out,
            },
        };
        let mut h = InMemoryZoneHandler::<SimRt>::empty(apex.clone(), ZoneType::Primary, AxfrPolicy::Deny, Some(nx));
        let soa = SOA::new(
            Name::from_ascii("ns.invalid.").unwrap(),
            Name::from_ascii("hostmaster.invalid.").unwrap(),
            1,
            7200,
            3600,
            1209600,
            3600,
        );
        let mut ok = h.upsert_mut(Record::from_rdata(apex.clone(), 3600, RData::SOA(soa)), 0);
        for (o, types) in &z.nodes {
            let name = to_name(o);
            for t in types {
                if *t == ty::SOA || *t == ty::DNSKEY {
                    continue;
                }
                ok &= h.upsert_mut(Record::from_rdata(name.clone(), 3600, rdata_for(*t)), 0);
            }
        }
        for (n, d) in extra {
            ok &= h.upsert_mut(Record::from_rdata(n.clone(), 3600, d.clone()), 0);
        }
        if !ok {
            return Err("upsert refused a record".into());
        }
        let key = Ed25519SigningKey::from_pkcs8(&PrivatePkcs8KeyDer::from(ED25519_PK8)).map_err(|e| e.to_string())?;
        let public_key = key.to_public_key().map_err(|e| e.to_string())?;
        let signer = DnssecSigner::new(
            DNSKEY::from_key(&public_key),
            Box::new(key),
            apex.clone(),
            std::time::Duration::from_secs(7 * 86400),
        );
        h.add_zone_signing_key_mut(signer).map_err(|e| e.to_string())?;
        h.secure_zone_mut().map_err(|e| e.to_string())?;
        let mut chain_nsec = Vec::new();
        let mut chain_nsec3 = Vec::new();
        for rrset in h.records_get_mut().values() {
            for r in rrset.records_without_rrsigs() {
                match &r.data {
                    RData::DNSSEC(DNSSECRData::NSEC(n)) => chain_nsec.push((r.name.clone(), n.clone())),
                    RData::DNSSEC(DNSSECRData::NSEC3(n)) => chain_nsec3.push((r.name.clone(), n.clone())),
                    _ => {}
                }
            }
        }
        let mut catalog = Catalog::new();
        let handler: Arc<dyn ZoneHandler> = Arc::new(h);
        catalog.upsert(LowerName::new(&apex), vec![handler]);
        Ok(HkZone {
            catalog: Arc::new(catalog),
            apex,
            public_key,
            chain_nsec,
            chain_nsec3,
        })
    })
}

#[derive(Clone, Default)]
pub struct Capture {
    buf: Arc<Mutex<Option<Vec<u8>>>>,
}

#[async_trait::async_trait]
impl ResponseHandler for Capture {
    async fn send_response<'a>(
        &mut self,
        response: MessageResponse<
            '_,
            'a,
            impl Iterator<Item = &'a Record> + Send + 'a,
            impl Iterator<Item = &'a Record> + Send + 'a,
            impl Iterator<Item = &'a Record> + Send + 'a,
            impl Iterator<Item = &'a Record> + Send + 'a,
        >,
    ) -> Result<ResponseInfo, NetError> {
        let mut out = Vec::with_capacity(1024);
        let info = {
            let mut encoder = BinEncoder::new(&mut out);
            response.destructive_emit(&mut encoder)?
        };
        *self.buf.lock().unwrap() = Some(out);
        Ok(info)
    }
}

fn src() -> SocketAddr {
    SocketAddr::from(([192, 0, 2, 53], 5353))
}

pub fn query_bytes(q: &Name, qtype: RecordType, dnssec_ok: bool, id: u16) -> Vec<u8> {
    let mut m = Message::new(id, MessageType::Query, OpCode::Query);
    m.add_query(Query::new(q.clone(), qtype));
    let mut e = Edns::new();
    e.set_max_payload(4096);
    e.set_dnssec_ok(dnssec_ok);
    m.set_edns(e);
    m.to_vec().expect("query encodes")
}

async fn serve(catalog: &Catalog, bytes: Vec<u8>) -> Result<Vec<u8>, String> {
    let req = Request::from_bytes(bytes, src(), Protocol::Tcp).map_err(|e| format!("request: {e}"))?;
    let cap = Capture::default();
    catalog.handle_request::<_, SimTime>(&req, cap.clone()).await;
    let out = cap.buf.lock().unwrap().take();
    out.ok_or_else(|| "server sent no response".to_string())
}

/// Ask hickory's own server (through `Catalog::handle_request`) with DO set; the response went
/// through the wire format once, as a client would receive it.
pub fn ask(hz: &HkZone, q: &Name, qtype: RecordType) -> Result<Message, String> {
    let bytes = query_bytes(q, qtype, true, 0x5151);
    let out = futures_executor::block_on(serve(&hz.catalog, bytes))?;
    Message::from_vec(&out).map_err(|e| format!("response does not decode: {e}"))
}

// ---------------------------------------------------------------------------------------------
// end to end through DnssecDnsHandle

#[derive(Clone)]
pub struct CatalogHandle {
    pub catalog: Arc<Catalog>,
    pub log: Arc<Mutex<Vec<String>>>,
}

impl DnsHandle for CatalogHandle {
    type Response = Pin<Box<dyn Stream<Item = Result<DnsResponse, NetError>> + Send>>;
    type Runtime = SimRt;

    fn send(&self, request: DnsRequest) -> Self::Response {
        let catalog = self.catalog.clone();
        let log = self.log.clone();
        Box::pin(stream::once(async move {
            let (msg, _) = request.into_parts();
            if let Some(q) = msg.queries.first() {
                log.lock().unwrap().push(format!("{} {}", q.name, q.query_type));
            }
            let bytes = msg.to_vec().map_err(|e| NetError::from(format!("encode: {e}")))?;
            let out = serve(&catalog, bytes).await.map_err(NetError::from)?;
            DnsResponse::from_buffer(out).map_err(|e| NetError::from(format!("decode: {e}")))
        }))
    }
}

pub fn trust_anchor(hz: &HkZone) -> Arc<TrustAnchors> {
    let mut ta = TrustAnchors::empty();
    ta.insert(&hz.public_key);
    Arc::new(ta)
}

pub fn now_secs() -> u64 {
    SimTime::current_time()
}

// ---------------------------------------------------------------------------------------------
// reading a server response the way `verify_response` does before calling verify_nsec*

pub struct NegParts {
    pub rcode: hickory_proto::op::ResponseCode,
    pub soa_name: Option<Name>,
    pub answers: Vec<Record>,
    pub nsecs: Vec<(Name, NSEC)>,
    pub nsec3s: Vec<(Name, NSEC3)>,
    /// the answer section carries an RRSIG with Labels < owner labels (hickory's counting)
    pub wildcard_rrsig_labels: Option<u8>,
    pub referral: bool,
}

/// `find_soa_name`: first SOA of the authority section; NSEC/NSEC3 of the authority section;
/// answers with `proof = Secure` (the state after a successful signature check).
pub fn split_response(m: &Message) -> NegParts {
    let soa_name = m
        .authorities
        .iter()
        .find(|r| r.record_type() == RecordType::SOA)
        .map(|r| r.name.clone());
    let mut nsecs = Vec::new();
    let mut nsec3s = Vec::new();
    for r in &m.authorities {
        match &r.data {
            RData::DNSSEC(DNSSECRData::NSEC(n)) => nsecs.push((r.name.clone(), n.clone())),
            RData::DNSSEC(DNSSECRData::NSEC3(n)) => nsec3s.push((r.name.clone(), n.clone())),
            _ => {}
        }
    }
    let mut answers = m.answers.clone();
    let mut wl = None;
    for a in answers.iter_mut() {
        a.proof = Proof::Secure;
        if let RData::DNSSEC(DNSSECRData::RRSIG(s)) = &a.data {
            // true label count of the owner, `*` included (RFC 4035 §5.3.1 counts the labels of
            // the owner name, RFC 4034 §3.1.3 excludes a leading `*` from the Labels field)
            let mut owner_labels = a.name.iter().count() as u8;
            if a.name.iter().next() == Some(&b"*"[..]) {
                owner_labels -= 1;
            }
            if s.input().num_labels < owner_labels {
                wl = Some(wl.map_or(s.input().num_labels, |x: u8| x.min(s.input().num_labels)));
            }
        }
    }
    let referral = m.answers.is_empty()
        && soa_name.is_none()
        && m.authorities.iter().any(|r| r.record_type() == RecordType::NS);
    NegParts {
        rcode: m.metadata.response_code,
        soa_name,
        answers,
        nsecs,
        nsec3s,
        wildcard_rrsig_labels: wl,
        referral,
    }
}

/// relative owner names of a model zone (for `gen::nzones::resolve_q`)
pub fn owners_rel(z: &Zone) -> Vec<String> {
    z.nodes
        .iter()
        .filter(|(o, _)| o.len() > z.apex.len())
        .map(|(o, _)| {
            let rel = &o[..o.len() - z.apex.len()];
            rel.iter()
                .map(|l| String::from_utf8_lossy(l).into_owned())
                .collect::<Vec<_>>()
                .join(".")
        })
        .collect()
}

/// absolute labels of a relative query name (`@` = apex)
pub fn abs_q(z: &Zone, rel: &str) -> Vec<Vec<u8>> {
    let mut l = if rel == "@" {
        vec![]
    } else {
        crate::refm::zonemodel::parse_name(rel)
    };
    l.extend(z.apex.iter().cloned());
    l
}

pub fn pos_class(z: &Zone, q: &[Vec<u8>]) -> &'static str {
    match z.pos(q) {
        Pos::Out => "q-out-of-zone",
        Pos::Auth => "q-auth",
        Pos::AtCut(_) => "q-at-cut",
        Pos::BelowCut(_) => "q-below-cut",
    }
}
