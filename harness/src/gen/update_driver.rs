//! Rendering of the UPDATE universe into hickory: zone handler construction from a model zone,
//! content snapshots, wire encoding of UPDATE requests, and the two ways of applying a message
//! (real path: TSIG-signed bytes -> `Request::from_bytes` -> `ZoneHandler::update`; direct path:
//! `verify_prerequisites` / `pre_scan` / `update_records`).

use std::collections::BTreeSet;
use std::net::SocketAddr;
use std::str::FromStr;

use futures_executor::block_on;
use hickory_net::runtime::TokioRuntimeProvider;
use hickory_net::xfer::Protocol;
use hickory_proto::op::ResponseCode;
use hickory_proto::rr::rdata::tsig::TsigAlgorithm;
use hickory_proto::rr::{LowerName, Name, RData, Record, RecordType, TSigner};
use hickory_proto::serialize::binary::{BinDecodable, BinDecoder, BinEncodable, BinEncoder};
use hickory_server::server::Request;
use hickory_server::store::in_memory::InMemoryZoneHandler;
use hickory_server::store::sqlite::{Journal, SqliteZoneHandler};
use hickory_server::zone_handler::{AxfrPolicy, LookupError, LookupOptions, ZoneHandler, ZoneType};

use crate::refm::canon;
use crate::refm::tsig_ref::{self, Alg, Key};
use crate::refm::update_ref::*;

pub type Handler = SqliteZoneHandler<TokioRuntimeProvider>;

pub fn to_name(labels: &[Vec<u8>]) -> Name {
    let mut n = Name::from_labels(labels.iter().map(|l| l.as_slice())).expect("universe names are valid");
    n.set_fqdn(true);
    n
}

pub fn labels_from(n: &Name) -> Labels {
    n.iter().map(|l| l.to_vec()).collect()
}

/// decode one RR from its wire form with hickory's decoder — what the server sees for this RR
pub fn record_from_wire(wire: &[u8]) -> Result<Record, String> {
    let mut d = BinDecoder::new(wire);
    Record::read(&mut d).map_err(|e| e.to_string())
}

pub fn zrr_wire(name: &[Vec<u8>], rtype: u16, ttl: u32, rdata: &[u8]) -> Vec<u8> {
    URr {
        name: name.to_vec(),
        rtype,
        class: C_IN,
        ttl,
        rdata: rdata.to_vec(),
    }
    .wire()
}

/// a `SqliteZoneHandler` (updates allowed, DNSSEC signing off) holding exactly the model zone
pub fn build_handler(zone: &Zone, axfr: AxfrPolicy) -> Result<Handler, String> {
    let origin = to_name(&zone.origin);
    let serial = zone.serial().ok_or("model zone without SOA")?;
    let mut im: InMemoryZoneHandler<TokioRuntimeProvider> = InMemoryZoneHandler::empty(origin, ZoneType::Primary, AxfrPolicy::AllowAll, None);
    for ((name, rtype, rdata), ttl) in &zone.rrs {
        let rec = record_from_wire(&zrr_wire(name, *rtype, *ttl, rdata))?;
        if !im.upsert_mut(rec, serial) {
            return Err(format!("upsert_mut refused {} {}", canon::show(name), type_name(*rtype)));
        }
    }
    Ok(SqliteZoneHandler::new(im, axfr, true, false))
}

pub fn empty_handler(origin: &[Vec<u8>], axfr: AxfrPolicy) -> Handler {
    let im: InMemoryZoneHandler<TokioRuntimeProvider> = InMemoryZoneHandler::empty(to_name(origin), ZoneType::Primary, AxfrPolicy::AllowAll, None);
    SqliteZoneHandler::new(im, axfr, true, false)
}

pub fn memory_journal() -> Result<Journal, String> {
    let conn = rusqlite::Connection::open_in_memory().map_err(|e| e.to_string())?;
    let mut j = Journal::new(conn).map_err(|e| e.to_string())?;
    j.schema_up().map_err(|e| e.to_string())?;
    Ok(j)
}

/// RDATA octets of a stored record in uncompressed wire form, derived field by field for the
/// types of the universe (not through hickory's encoder); anything else falls back to the encoder
pub fn rdata_wire(d: &RData) -> Vec<u8> {
    match d {
        RData::A(a) => a.0.octets().to_vec(),
        RData::NS(n) => name_wire(&labels_from(&n.0)),
        RData::CNAME(n) => name_wire(&labels_from(&n.0)),
        RData::TXT(t) => {
            let mut v = Vec::new();
            for s in t.txt_data.iter() {
                v.push(s.len() as u8);
                v.extend_from_slice(s);
            }
            v
        }
        RData::SOA(s) => soa_rdata(
            &labels_from(&s.mname),
            &labels_from(&s.rname),
            s.serial,
            s.refresh as u32,
            s.retry as u32,
            s.expire as u32,
            s.minimum,
        ),
        RData::Update0(_) => vec![],
        other => {
            let mut buf = Vec::new();
            let mut enc = BinEncoder::new(&mut buf);
            let _ = other.emit(&mut enc);
            buf
        }
    }
}

#[derive(Clone, Debug, PartialEq, Eq)]
pub struct Snapshot {
    pub zone: Zone,
    /// RRsets present as objects but holding no RR
    pub ghosts: BTreeSet<(Labels, u16)>,
    /// RRs whose class is not the zone's, or whose owner differs from their RRset key
    pub oddities: Vec<String>,
}

pub fn snapshot(h: &Handler) -> Snapshot {
    let origin = labels_from(&Name::from(h.origin().clone()));
    let mut zone = Zone::new(&origin);
    let mut ghosts = BTreeSet::new();
    let mut oddities = Vec::new();
    let records = block_on(h.records());
    for (key, set) in records.iter() {
        let kname = canon::lower(&labels_from(&Name::from(key.name.clone())));
        let ktype: u16 = key.record_type.into();
        let mut n = 0;
        for r in set.records_without_rrsigs() {
            n += 1;
            let rname = canon::lower(&labels_from(&r.name));
            let rtype: u16 = r.record_type().into();
            let class: u16 = r.dns_class.into();
            if rname != kname || rtype != ktype {
                oddities.push(format!("RR {} {} filed under {} {}", canon::show(&rname), type_name(rtype), canon::show(&kname), type_name(ktype)));
            }
            if class != C_IN {
                oddities.push(format!("RR {} {} has class {}", canon::show(&rname), type_name(rtype), class_name(class)));
            }
            let rd = rdata_wire(&r.data);
            if zone.rrs.insert((rname.clone(), rtype, rd), r.ttl).is_some() {
                oddities.push(format!("duplicate RR at {} {}", canon::show(&rname), type_name(rtype)));
            }
        }
        if n == 0 {
            ghosts.insert((kname, ktype));
        }
    }
    Snapshot { zone, ghosts, oddities }
}

/// drop RRset objects that hold no RR (used after an empty-RRset finding has been recorded, so
/// that the rest of the history runs from the state the reference model is in)
pub fn remove_ghosts(h: &Handler) {
    let mut recs = block_on(h.records_mut());
    recs.retain(|_, set| !set.is_empty());
}

/// header + zone section + prerequisite + update sections; no additional records
pub fn encode_update(id: u16, zname: &[Vec<u8>], msg: &UMsg) -> Vec<u8> {
    let mut v = Vec::with_capacity(256);
    v.extend_from_slice(&id.to_be_bytes());
    v.push(5 << 3); // QR=0, OPCODE=UPDATE
    v.push(0);
    v.extend_from_slice(&1u16.to_be_bytes());
    v.extend_from_slice(&(msg.prereqs.len() as u16).to_be_bytes());
    v.extend_from_slice(&(msg.updates.len() as u16).to_be_bytes());
    v.extend_from_slice(&0u16.to_be_bytes());
    v.extend(name_wire(zname));
    v.extend_from_slice(&T_SOA.to_be_bytes());
    v.extend_from_slice(&C_IN.to_be_bytes());
    for rr in msg.prereqs.iter().chain(msg.updates.iter()) {
        v.extend(rr.wire());
    }
    v
}

pub fn test_key() -> Key {
    Key {
        name: labels_of("upd-key.test."),
        secret: b"0123456789abcdef0123456789abcdef".to_vec(),
        alg: Alg::Sha256,
    }
}

pub fn hickory_alg(a: Alg) -> TsigAlgorithm {
    match a {
        Alg::Sha256 => TsigAlgorithm::HmacSha256,
        Alg::Sha384 => TsigAlgorithm::HmacSha384,
        Alg::Sha512 => TsigAlgorithm::HmacSha512,
    }
}

pub fn hickory_signer(k: &Key, fudge: u16) -> TSigner {
    TSigner::new(k.secret.clone(), hickory_alg(k.alg), to_name(&k.name), fudge).expect("supported algorithm")
}

pub fn src_addr() -> SocketAddr {
    SocketAddr::from(([192, 0, 2, 99], 5353))
}

#[derive(Clone, Debug, PartialEq, Eq)]
pub enum Applied {
    /// NOERROR; the bool is the "zone was modified" flag the handler returned
    Ok(bool),
    Rcode(u8),
    /// the request bytes do not decode (the front door answers FORMERR and nothing is dispatched)
    Undecodable(String),
    Panic(String, String),
}

impl Applied {
    pub fn accepted(&self) -> bool {
        matches!(self, Applied::Ok(_))
    }
    pub fn show(&self) -> String {
        match self {
            Applied::Ok(b) => format!("NOERROR(modified={b})"),
            Applied::Rcode(r) => format!("rcode {r}"),
            Applied::Undecodable(e) => format!("undecodable ({e})"),
            Applied::Panic(m, l) => format!("panic at {l}: {m}"),
        }
    }
}

fn rc(r: ResponseCode) -> u8 {
    r.low()
}

/// real path: signed request bytes -> Request::from_bytes -> ZoneHandler::update(req, now)
pub fn apply_real(h: &Handler, bytes: Vec<u8>, now: u64) -> Applied {
    let req = match Request::from_bytes(bytes, src_addr(), Protocol::Tcp) {
        Ok(r) => r,
        Err(e) => return Applied::Undecodable(e.to_string()),
    };
    match crate::core::catch(|| block_on(h.update(&req, now))) {
        Ok((Ok(b), _)) => Applied::Ok(b),
        Ok((Err(code), _)) => Applied::Rcode(rc(code)),
        Err((m, l)) => Applied::Panic(m, l),
    }
}

/// direct path, same order as `update()`: prerequisites, prescan, apply
pub fn apply_direct(h: &Handler, msg: &UMsg) -> Applied {
    let mut pre = Vec::new();
    let mut upd = Vec::new();
    for (src, dst) in [(&msg.prereqs, &mut pre), (&msg.updates, &mut upd)] {
        for rr in src {
            match record_from_wire(&rr.wire()) {
                Ok(r) => dst.push(r),
                Err(e) => return Applied::Undecodable(e),
            }
        }
    }
    let r = crate::core::catch(|| {
        block_on(async {
            h.verify_prerequisites(&pre).await?;
            h.pre_scan(&upd).await?;
            h.update_records(&upd, true).await
        })
    });
    match r {
        Ok(Ok(b)) => Applied::Ok(b),
        Ok(Err(code)) => Applied::Rcode(rc(code)),
        Err((m, l)) => Applied::Panic(m, l),
    }
}

/// sign with the reference signer (RFC 8945 §4.3 via `tsig_ref`) and apply through the real path
pub fn apply_signed(h: &Handler, id: u16, zname: &[Vec<u8>], msg: &UMsg, key: &Key, now: u64) -> Applied {
    let unsigned = encode_update(id, zname, msg);
    let (bytes, _) = tsig_ref::sign_request(&unsigned, key, now, 300);
    apply_real(h, bytes, now)
}

#[derive(Clone, Debug, PartialEq, Eq)]
pub enum Seen {
    Records(BTreeSet<(u16, Vec<u8>)>),
    /// NOERROR / no data
    NameExists,
    NxDomain,
    Other(String),
}

/// what a query for (name, type) sees
pub fn lookup(h: &Handler, name: &[Vec<u8>], rtype: u16) -> Seen {
    let ln = LowerName::from(to_name(name));
    let r = block_on(h.lookup(&ln, RecordType::from(rtype), None, LookupOptions::default()));
    match r.map_result() {
        Some(Ok(l)) => Seen::Records(l.iter().map(|r| (u16::from(r.record_type()), rdata_wire(&r.data))).collect()),
        Some(Err(LookupError::NameExists)) => Seen::NameExists,
        Some(Err(e)) if e.is_nx_domain() => Seen::NxDomain,
        Some(Err(e)) => Seen::Other(e.to_string()),
        None => Seen::Other("skip".into()),
    }
}

pub fn name_from_str(s: &str) -> Name {
    Name::from_str(s).expect("valid name")
}
