//! Generators (proptest strategies). Sound first, then complete; construction over rejection.
pub mod names;
pub mod msg;
pub mod to_hickory;
pub mod zones;
pub mod rrsets;
pub mod internet;
pub mod zonefile;
pub mod update_driver;
pub mod updates;
pub mod hier;
pub mod nzones;
pub mod zonebuild;
