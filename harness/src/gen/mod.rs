//! Generators (proptest strategies). Sound first, then complete; construction over rejection.
pub mod names;
