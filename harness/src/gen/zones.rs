//! Zone generator over a small name universe (DESIGN §5.1): labels {a, b, *} plus a few extras
//! (c, sub, ns, k0..k9), depth ≤ 3 under the apex. Apex SOA + NS always; hosts, empty
//! non-terminals, wildcards (also `*.a`, `a.*`, `sub.*`), CNAME chains and loops with in- and
//! out-of-zone targets, delegations with/without glue and with/without DS, occluded data below
//! a cut, data at a cut. Zones are *constructed* (conflicting features are dropped), never
//! rejected, and every constructed zone satisfies the well-formedness rules a primary accepts:
//! CNAME alone at its owner (RFC 1034 §3.6.2), no CNAME/DS at the apex, DS only beside NS at a
//! cut (RFC 4035 §2.4), no NS/DS at a wildcard owner (RFC 4592 §4.2 calls the behaviour
//! undefined).
//!
//! A model zone renders — independently — into hickory `Record`s (for `upsert_mut`) and into the
//! reference model `refm::auth_ref::RefZone`.
//!
//! Names in the model are presentation strings made of `[a-z0-9*-]` labels, absolute
//! (`"*.a.example."`), so replay files read like a zone file.

use std::collections::{BTreeMap, BTreeSet};

use hickory_proto::dnssec::rdata::{DNSSECRData, DS};
use hickory_proto::dnssec::{Algorithm, DigestType};
use hickory_proto::rr::rdata::{A, AAAA, CNAME, MX, NS, SOA, TXT};
use hickory_proto::rr::{Name, RData, Record};
use proptest::collection::vec;
use proptest::prelude::*;
use proptest::sample::Index;
use serde::{Deserialize, Serialize};

use crate::refm::auth_ref::RefZone;
use crate::refm::wire_lite::{self as wl, parse_name_str};

pub const TTL: u32 = 300;
pub const SOA_SERIAL: u32 = 7;
pub const SOA_MINIMUM: u32 = 60;

#[derive(Clone, Debug, PartialEq, Eq, Hash, PartialOrd, Ord, Serialize, Deserialize)]
pub enum MRData {
    /// 192.0.2.x
    A(u8),
    /// 2001:db8::x
    Aaaa(u8),
    Mx(u8, String),
    Txt(String),
    Cname(String),
    Ns(String),
    /// key tag x, algorithm 15, digest type 2, digest = 32 × x
    Ds(u8),
}

impl MRData {
    pub fn rtype(&self) -> u16 {
        match self {
            MRData::A(_) => wl::T_A,
            MRData::Aaaa(_) => wl::T_AAAA,
            MRData::Mx(..) => wl::T_MX,
            MRData::Txt(_) => wl::T_TXT,
            MRData::Cname(_) => wl::T_CNAME,
            MRData::Ns(_) => wl::T_NS,
            MRData::Ds(_) => wl::T_DS,
        }
    }

    /// canonical RDATA octets, written from RFC 1035 §3.3/§3.4, RFC 3596 §2.2, RFC 4034 §5.1
    pub fn canon(&self) -> Vec<u8> {
        let lname = |s: &str| -> Vec<u8> { wl::name_wire(&crate::refm::canon::lower(&parse_name_str(s))) };
        match self {
            MRData::A(x) => vec![192, 0, 2, *x],
            MRData::Aaaa(x) => {
                let mut v = vec![0x20, 0x01, 0x0d, 0xb8];
                v.extend_from_slice(&[0; 11]);
                v.push(*x);
                v
            }
            MRData::Mx(p, t) => {
                let mut v = vec![0, *p];
                v.extend(lname(t));
                v
            }
            MRData::Txt(s) => {
                let mut v = vec![s.len() as u8];
                v.extend_from_slice(s.as_bytes());
                v
            }
            MRData::Cname(t) | MRData::Ns(t) => lname(t),
            MRData::Ds(x) => {
                let mut v = vec![0, *x, 15, 2];
                v.extend_from_slice(&[*x; 32]);
                v
            }
        }
    }

    pub fn to_hickory(&self) -> RData {
        let hname = |s: &str| hname(s);
        match self {
            MRData::A(x) => RData::A(A::new(192, 0, 2, *x)),
            MRData::Aaaa(x) => RData::AAAA(AAAA::new(0x2001, 0xdb8, 0, 0, 0, 0, 0, *x as u16)),
            MRData::Mx(p, t) => RData::MX(MX::new(*p as u16, hname(t))),
            MRData::Txt(s) => RData::TXT(TXT::new(vec![s.clone()])),
            MRData::Cname(t) => RData::CNAME(CNAME(hname(t))),
            MRData::Ns(t) => RData::NS(NS(hname(t))),
            MRData::Ds(x) => RData::DNSSEC(DNSSECRData::DS(DS::new(
                *x as u16,
                Algorithm::ED25519,
                DigestType::SHA256,
                vec![*x; 32],
            ))),
        }
    }

    pub fn show(&self) -> String {
        match self {
            MRData::A(x) => format!("A 192.0.2.{x}"),
            MRData::Aaaa(x) => format!("AAAA 2001:db8::{x:x}"),
            MRData::Mx(p, t) => format!("MX {p} {t}"),
            MRData::Txt(s) => format!("TXT \"{s}\""),
            MRData::Cname(t) => format!("CNAME {t}"),
            MRData::Ns(t) => format!("NS {t}"),
            MRData::Ds(x) => format!("DS {x} 15 2 …"),
        }
    }
}

/// hickory name from a model presentation string (through the raw-label constructor)
pub fn hname(s: &str) -> Name {
    let labels = parse_name_str(s);
    let mut n = Name::from_labels(labels.iter().map(|l| l.as_slice())).expect("model names are short");
    n.set_fqdn(true);
    n
}

#[derive(Clone, Debug, PartialEq, Eq, Hash, PartialOrd, Ord, Serialize, Deserialize)]
pub struct MRec {
    pub owner: String,
    pub rd: MRData,
}

/// a model zone; the SOA at the apex is implicit (fixed RDATA), everything else is listed
#[derive(Clone, Debug, PartialEq, Eq, Hash, Serialize, Deserialize)]
pub struct MZone {
    pub origin: String,
    pub recs: Vec<MRec>,
}

impl MZone {
    pub fn soa_mname(&self) -> String {
        format!("ns.{}", self.origin)
    }
    pub fn soa_rname(&self) -> String {
        format!("hostmaster.{}", self.origin)
    }

    pub fn soa_canon(&self, serial: u32) -> Vec<u8> {
        // RFC 1035 §3.3.13
        let mut v = wl::name_wire(&parse_name_str(&self.soa_mname()));
        v.extend(wl::name_wire(&parse_name_str(&self.soa_rname())));
        for x in [serial, 3600, 600, 86400, SOA_MINIMUM] {
            v.extend_from_slice(&x.to_be_bytes());
        }
        v
    }

    pub fn soa_record(&self) -> Record {
        Record::from_rdata(
            hname(&self.origin),
            TTL,
            RData::SOA(SOA::new(
                hname(&self.soa_mname()),
                hname(&self.soa_rname()),
                SOA_SERIAL,
                3600,
                600,
                86400,
                SOA_MINIMUM,
            )),
        )
    }

    /// every record to load, SOA first
    pub fn hickory_records(&self) -> Vec<Record> {
        let mut out = vec![self.soa_record()];
        for r in &self.recs {
            out.push(Record::from_rdata(hname(&r.owner), TTL, r.rd.to_hickory()));
        }
        out
    }

    /// the reference-model rendering; `soa_serial` is what the served SOA carries
    pub fn to_ref(&self, soa_serial: u32) -> RefZone {
        let origin = parse_name_str(&self.origin);
        let mut z = RefZone::new(origin.clone());
        z.add(&origin, wl::T_SOA, self.soa_canon(soa_serial));
        for r in &self.recs {
            z.add(&parse_name_str(&r.owner), r.rd.rtype(), r.rd.canon());
        }
        z
    }

    /// well-formedness rules listed in the module doc; Err names the broken rule
    pub fn validate(&self) -> Result<(), String> {
        let origin = parse_name_str(&self.origin);
        let mut types: BTreeMap<Vec<Vec<u8>>, BTreeSet<u16>> = BTreeMap::new();
        for r in &self.recs {
            let o = parse_name_str(&r.owner);
            if !crate::refm::canon::is_suffix(&origin, &o) {
                return Err(format!("{} is outside {}", r.owner, self.origin));
            }
            types.entry(o).or_default().insert(r.rd.rtype());
        }
        if !types.get(&origin).is_some_and(|t| t.contains(&wl::T_NS)) {
            return Err("apex has no NS".into());
        }
        for (o, t) in &types {
            if t.contains(&wl::T_CNAME) && (t.len() > 1 || *o == origin) {
                return Err(format!("CNAME not alone at {}", crate::refm::canon::show(o)));
            }
            if t.contains(&wl::T_DS) && (!t.contains(&wl::T_NS) || *o == origin) {
                return Err(format!("DS without a cut at {}", crate::refm::canon::show(o)));
            }
            if *o != origin && o.first().is_some_and(|l| l == b"*") && (t.contains(&wl::T_NS) || t.contains(&wl::T_DS)) {
                return Err("NS/DS at a wildcard owner".into());
            }
        }
        Ok(())
    }

    pub fn show(&self) -> String {
        let mut s = format!("$ORIGIN {} ; SOA implicit\n", self.origin);
        for r in &self.recs {
            s.push_str(&format!("{} {}\n", r.owner, r.rd.show()));
        }
        s
    }
}

// ---------------------------------------------------------------------------------------------
// construction

type Lbl = &'static str;

fn label() -> impl Strategy<Value = Lbl> {
    prop_oneof![
        4 => Just("a"),
        3 => Just("b"),
        3 => Just("*"),
        1 => Just("c"),
        1 => Just("sub"),
    ]
}

/// relative owner name, 1..=3 labels, leftmost first
fn rel() -> impl Strategy<Value = Vec<Lbl>> {
    prop_oneof![
        3 => vec(label(), 1),
        4 => vec(label(), 2),
        2 => vec(label(), 3),
    ]
}

#[derive(Clone, Debug)]
enum Tgt {
    Rel(Vec<Lbl>),
    Apex,
    /// out-of-zone: host.other. / the parent of the apex / a sibling of the apex
    Out(u8),
    /// the owner of an earlier feature
    Feat(Index),
    /// a child of the owner of an earlier feature
    ChildOf(Index, Lbl),
}

fn tgt() -> impl Strategy<Value = Tgt> {
    prop_oneof![
        4 => rel().prop_map(Tgt::Rel),
        1 => Just(Tgt::Apex),
        2 => (0u8..3).prop_map(Tgt::Out),
        4 => any::<Index>().prop_map(Tgt::Feat),
        2 => (any::<Index>(), label()).prop_map(|(i, l)| Tgt::ChildOf(i, l)),
    ]
}

#[derive(Clone, Copy, Debug)]
enum NsKind {
    /// NS ns.<cut> with an address record below the cut (glue)
    GlueBelow,
    /// NS ns.<cut> and nothing else
    NoGlueBelow,
    /// NS ns.other.
    Out,
    /// NS ns.<origin> (authoritative data of this zone, address present)
    InZone,
}

fn ns_kind() -> impl Strategy<Value = NsKind> {
    prop_oneof![
        3 => Just(NsKind::GlueBelow),
        2 => Just(NsKind::NoGlueBelow),
        2 => Just(NsKind::Out),
        2 => Just(NsKind::InZone),
    ]
}

#[derive(Clone, Debug)]
enum Place {
    At(Vec<Lbl>),
    /// one label below the owner of an earlier feature (ENT chains, occlusion, blocking names)
    Below(Index, Lbl),
    /// two labels below (creates an empty non-terminal in between)
    Below2(Index, Lbl, Lbl),
}

fn place() -> impl Strategy<Value = Place> {
    prop_oneof![
        6 => rel().prop_map(Place::At),
        3 => (any::<Index>(), label()).prop_map(|(i, l)| Place::Below(i, l)),
        1 => (any::<Index>(), label(), label()).prop_map(|(i, l, m)| Place::Below2(i, l, m)),
    ]
}

#[derive(Clone, Debug)]
enum Feat {
    /// bit0 A, bit1 AAAA, bit2 MX, bit3 TXT
    Host { at: Place, types: u8, v: u8, two: bool },
    Cname { at: Place, target: Tgt },
    Deleg { at: Place, ns: NsKind, two_ns: bool, ds: bool },
    /// k0 → k1 → … → k{len-1} → end
    Chain { len: usize, end: Tgt },
}

fn feat() -> impl Strategy<Value = Feat> {
    prop_oneof![
        6 => (place(), 1u8..16, 1u8..250, any::<bool>()).prop_map(|(at, types, v, two)| Feat::Host { at, types, v, two }),
        4 => (place(), tgt()).prop_map(|(at, target)| Feat::Cname { at, target }),
        3 => (place(), ns_kind(), any::<bool>(), any::<bool>()).prop_map(|(at, ns, two_ns, ds)| Feat::Deleg { at, ns, two_ns, ds }),
        1 => (prop_oneof![3 => 2usize..=4, 2 => 5usize..=7, 2 => 8usize..=10], tgt()).prop_map(|(len, end)| Feat::Chain { len, end }),
    ]
}

struct Builder {
    origin: String,
    origin_depth: usize,
    recs: BTreeSet<MRec>,
    types: BTreeMap<String, BTreeSet<u16>>,
    /// owners of the features placed so far (absolute presentation names)
    placed: Vec<String>,
}

fn join(labels: &[&str], origin: &str) -> String {
    let mut s = String::new();
    for l in labels {
        s.push_str(l);
        s.push('.');
    }
    s.push_str(origin);
    s
}

fn depth(name: &str) -> usize {
    name.split('.').filter(|l| !l.is_empty()).count()
}

impl Builder {
    fn can_add(&self, owner: &str, rtype: u16) -> bool {
        let d = depth(owner);
        if d < self.origin_depth || d > self.origin_depth + 3 {
            return false;
        }
        let apex = owner == self.origin;
        let empty = BTreeSet::new();
        let have = self.types.get(owner).unwrap_or(&empty);
        let wildcard_owner = owner.starts_with("*.");
        match rtype {
            wl::T_CNAME => !apex && (have.is_empty() || (have.len() == 1 && have.contains(&wl::T_CNAME))),
            wl::T_NS => !have.contains(&wl::T_CNAME) && (apex || !wildcard_owner),
            wl::T_DS => !apex && !wildcard_owner && have.contains(&wl::T_NS),
            _ => !have.contains(&wl::T_CNAME),
        }
    }

    fn add(&mut self, owner: &str, rd: MRData) -> bool {
        let t = rd.rtype();
        if !self.can_add(owner, t) {
            return false;
        }
        if t == wl::T_CNAME && self.types.get(owner).is_some_and(|h| h.contains(&wl::T_CNAME)) {
            return false; // one CNAME per owner
        }
        self.types.entry(owner.to_string()).or_default().insert(t);
        self.recs.insert(MRec {
            owner: owner.to_string(),
            rd,
        });
        true
    }

    fn earlier(&self, i: &Index) -> Option<String> {
        if self.placed.is_empty() {
            None
        } else {
            Some(self.placed[i.index(self.placed.len())].clone())
        }
    }

    fn place(&self, p: &Place) -> String {
        match p {
            Place::At(l) => join(l, &self.origin),
            Place::Below(i, l) => match self.earlier(i) {
                Some(n) => format!("{l}.{n}"),
                None => join(&[l], &self.origin),
            },
            Place::Below2(i, l, m) => match self.earlier(i) {
                Some(n) => format!("{l}.{m}.{n}"),
                None => join(&[l, m], &self.origin),
            },
        }
    }

    fn target(&self, t: &Tgt) -> String {
        match t {
            Tgt::Rel(l) => join(l, &self.origin),
            Tgt::Apex => self.origin.clone(),
            Tgt::Out(0) => "host.other.".to_string(),
            Tgt::Out(1) => {
                // the parent of the apex (or the root when the apex is a TLD)
                match self.origin.split_once('.') {
                    Some((_, rest)) if !rest.is_empty() => rest.to_string(),
                    _ => ".".to_string(),
                }
            }
            Tgt::Out(_) => "sibling-of-apex.".to_string(),
            Tgt::Feat(i) => self.earlier(i).unwrap_or_else(|| join(&["a"], &self.origin)),
            Tgt::ChildOf(i, l) => match self.earlier(i) {
                Some(n) => format!("{l}.{n}"),
                None => join(&[l, "a"], &self.origin),
            },
        }
    }

    fn apply(&mut self, f: &Feat) {
        match f {
            Feat::Host { at, types, v, two } => {
                let o = self.place(at);
                let mut any = false;
                if types & 1 != 0 {
                    any |= self.add(&o, MRData::A(*v));
                    if *two {
                        self.add(&o, MRData::A(v.wrapping_add(1)));
                    }
                }
                if types & 2 != 0 {
                    any |= self.add(&o, MRData::Aaaa(*v));
                }
                if types & 4 != 0 {
                    let t = format!("mail.{}", self.origin);
                    any |= self.add(&o, MRData::Mx(10, t));
                }
                if types & 8 != 0 {
                    any |= self.add(&o, MRData::Txt(format!("t{v}")));
                }
                if any {
                    self.placed.push(o);
                }
            }
            Feat::Cname { at, target } => {
                let o = self.place(at);
                let t = self.target(target);
                if self.add(&o, MRData::Cname(t)) {
                    self.placed.push(o);
                }
            }
            Feat::Deleg { at, ns, two_ns, ds } => {
                let o = self.place(at);
                if o == self.origin {
                    return;
                }
                let (t, glue): (String, Option<String>) = match ns {
                    NsKind::GlueBelow => (format!("ns.{o}"), Some(format!("ns.{o}"))),
                    NsKind::NoGlueBelow => (format!("ns.{o}"), None),
                    NsKind::Out => ("ns.other.".to_string(), None),
                    NsKind::InZone => (format!("ns.{}", self.origin), None),
                };
                if !self.add(&o, MRData::Ns(t)) {
                    return;
                }
                if *two_ns {
                    self.add(&o, MRData::Ns("ns2.other.".to_string()));
                }
                if let Some(g) = glue {
                    // may fail at depth 4: then the delegation simply has no glue
                    self.add(&g, MRData::A(53));
                }
                if *ds {
                    self.add(&o, MRData::Ds(9));
                }
                self.placed.push(o);
            }
            Feat::Chain { len, end } => {
                let end = self.target(end);
                let names: Vec<String> = (0..*len).map(|i| format!("k{i}.{}", self.origin)).collect();
                if self.types.contains_key(&names[0]) {
                    return; // one generated chain per zone
                }
                for i in 0..*len {
                    let t = if i + 1 < *len { names[i + 1].clone() } else { end.clone() };
                    self.add(&names[i], MRData::Cname(t));
                }
                self.placed.push(names[0].clone());
            }
        }
    }
}

/// zone strategy: `max_feats` features over the small universe
pub fn zone(max_feats: usize) -> impl Strategy<Value = MZone> {
    let origin = prop_oneof![
        6 => Just("example."),
        2 => Just("z.test."),
    ];
    // apex: 1–2 NS (in-zone with address / out-of-zone), optional further apex data
    let apex = (any::<bool>(), any::<bool>(), 0u8..16);
    (origin, apex, vec(feat(), 1..=max_feats)).prop_map(|(origin, (ns_in, ns_two, apex_types), feats)| {
        let mut b = Builder {
            origin: origin.to_string(),
            origin_depth: depth(origin),
            recs: BTreeSet::new(),
            types: BTreeMap::new(),
            placed: Vec::new(),
        };
        let apex = origin.to_string();
        if ns_in {
            let ns = format!("ns.{origin}");
            b.add(&apex, MRData::Ns(ns.clone()));
            b.add(&ns, MRData::A(53));
        } else {
            b.add(&apex, MRData::Ns("ns.other.".into()));
        }
        if ns_two {
            b.add(&apex, MRData::Ns("ns2.other.".into()));
        }
        if apex_types & 1 != 0 {
            b.add(&apex, MRData::A(1));
        }
        if apex_types & 2 != 0 {
            b.add(&apex, MRData::Mx(10, format!("mail.{origin}")));
        }
        if apex_types & 4 != 0 {
            b.add(&apex, MRData::Txt("apex".into()));
        }
        for f in &feats {
            b.apply(f);
        }
        MZone {
            origin: origin.to_string(),
            recs: b.recs.into_iter().collect(),
        }
    })
}

// ---------------------------------------------------------------------------------------------
// query names in and around a zone

fn parent(name: &str) -> Option<String> {
    if name == "." {
        return None;
    }
    match name.split_once('.') {
        Some((_, rest)) if !rest.is_empty() => Some(rest.to_string()),
        _ => Some(".".to_string()),
    }
}

/// candidate query names: every owner and in-zone target, their ancestors up to the apex,
/// children / grandchildren (below leaves, below cuts, below wildcards, beside them), and names
/// above and beside the apex. Names in the first list are the zone's own names.
pub fn around(z: &MZone) -> (Vec<String>, Vec<String>) {
    let mut core: BTreeSet<String> = BTreeSet::new();
    core.insert(z.origin.clone());
    let in_zone = |n: &str| n == z.origin || n.ends_with(&format!(".{}", z.origin));
    for r in &z.recs {
        core.insert(r.owner.clone());
        match &r.rd {
            MRData::Cname(t) | MRData::Ns(t) | MRData::Mx(_, t) if in_zone(t) => {
                core.insert(t.clone());
            }
            _ => {}
        }
    }
    // ancestors
    for n in core.clone() {
        let mut cur = n;
        while cur != z.origin {
            match parent(&cur) {
                Some(p) if in_zone(&p) => {
                    core.insert(p.clone());
                    cur = p;
                }
                _ => break,
            }
        }
    }
    let mut near: BTreeSet<String> = BTreeSet::new();
    let od = depth(&z.origin);
    for n in &core {
        if depth(n) >= od + 4 {
            continue;
        }
        for l in ["a", "b", "*", "c", "x"] {
            let child = format!("{l}.{n}");
            if !core.contains(&child) {
                near.insert(child.clone());
            }
            if depth(n) < od + 3 && l != "c" {
                near.insert(format!("x.{child}"));
                near.insert(format!("*.{child}"));
            }
        }
    }
    // above and beside the apex
    if let Some(p) = parent(&z.origin) {
        near.insert(p);
    }
    near.insert("sibling-of-apex.".to_string());
    near.insert(format!("x{}", z.origin));
    (core.into_iter().collect(), near.into_iter().collect())
}
