//! Model -> hickory values through hickory's *public constructors* (not through its decoder),
//! so that the "assembled from valid records" clause of C02 is exercised on values that never
//! passed through the code under test. Variants without a practical constructor path return
//! None and are built by decoding the model's own wire form instead (counted by the checks).

use std::net::{Ipv4Addr, Ipv6Addr};

use hickory_proto::dnssec::rdata::{CDNSKEY, CDS, DNSKEY, DNSSECRData, DS, KEY, NSEC, NSEC3, NSEC3PARAM, RRSIG, SigInput};
use hickory_proto::dnssec::{Algorithm, DigestType, Nsec3HashAlgorithm, PublicKeyBuf};
use hickory_proto::op::{Edns, Message, MessageType, OpCode, Query, ResponseCode};
use hickory_proto::rr::rdata::opt::{EdnsCode, EdnsOption};
use hickory_proto::rr::rdata::tsig::TsigAlgorithm;
use hickory_proto::rr::rdata::{
    self, A, AAAA, ANAME, CAA, CERT, CNAME, CSYNC, HINFO, MX, NAPTR, NS, NULL, OPENPGPKEY, PTR, SMIMEA, SOA, SRV, SSHFP, TLSA, TSIG, TXT,
};
use hickory_proto::rr::{DNSClass, Name, RData, Record, RecordType, SerialNumber};

use crate::refm::wire_ref::*;

pub fn name(l: &Lbls) -> Name {
    Name::from_labels(l.iter().map(|x| x.as_slice())).expect("model names are within limits")
}

fn types(t: &[u16]) -> Vec<RecordType> {
    t.iter().map(|c| RecordType::from(*c)).collect()
}

#[allow(deprecated)]
pub fn rdata(d: &MRData) -> Option<RData> {
    Some(match d {
        MRData::A(a) => RData::A(A(Ipv4Addr::from(*a))),
        MRData::Aaaa(a) => RData::AAAA(AAAA(Ipv6Addr::from(*a))),
        MRData::NameOnly { rtype, name: n } => match *rtype {
            T_NS => RData::NS(NS(name(n))),
            T_CNAME => RData::CNAME(CNAME(name(n))),
            T_PTR => RData::PTR(PTR(name(n))),
            T_ANAME => RData::ANAME(ANAME(name(n))),
            _ => return None,
        },
        MRData::Mx { pref, name: n } => RData::MX(MX::new(*pref, name(n))),
        MRData::Soa { mname, rname, serial, refresh, retry, expire, minimum } => {
            RData::SOA(SOA::new(name(mname), name(rname), *serial, *refresh, *retry, *expire, *minimum))
        }
        MRData::Srv { prio, weight, port, target } => RData::SRV(SRV::new(*prio, *weight, *port, name(target))),
        MRData::Txt(s) => RData::TXT(TXT::from_bytes(s.iter().map(|x| x.as_slice()).collect())),
        MRData::Hinfo { cpu, os } => RData::HINFO(HINFO::from_bytes(cpu.clone().into_boxed_slice(), os.clone().into_boxed_slice())),
        MRData::Naptr { order, pref, flags, services, regexp, replacement } => RData::NAPTR(NAPTR::new(
            *order,
            *pref,
            flags.clone().into_boxed_slice(),
            services.clone().into_boxed_slice(),
            regexp.clone().into_boxed_slice(),
            name(replacement),
        )),
        MRData::Caa { flags, tag, value } => {
            let mut c = CAA::new_issue(false, None, vec![]);
            c.issuer_critical = flags & 0x80 != 0;
            c.reserved_flags = flags & 0x7f;
            c.tag = String::from_utf8(tag.clone()).ok()?;
            c.value = value.clone();
            RData::CAA(c)
        }
        MRData::Cert { cert_type, key_tag, alg, data } => {
            RData::CERT(CERT::new(rdata::cert::CertType::from(*cert_type), *key_tag, rdata::cert::Algorithm::from(*alg), data.clone()))
        }
        MRData::Csync { serial, flags, types: t } => {
            let mut c = CSYNC::new(*serial, flags & 1 != 0, flags & 2 != 0, types(t));
            c.reserved_flags = flags & !3;
            RData::CSYNC(c)
        }
        MRData::Sshfp { alg, fptype, fp } => {
            RData::SSHFP(SSHFP::new(rdata::sshfp::Algorithm::from(*alg), rdata::sshfp::FingerprintType::from(*fptype), fp.clone()))
        }
        MRData::Tlsa { rtype, usage, selector, matching, data } => {
            let (u, s, m) = (rdata::tlsa::CertUsage::from(*usage), rdata::tlsa::Selector::from(*selector), rdata::tlsa::Matching::from(*matching));
            if *rtype == T_TLSA {
                RData::TLSA(TLSA::new(u, s, m, data.clone()))
            } else {
                RData::SMIMEA(SMIMEA::new(u, s, m, data.clone()))
            }
        }
        MRData::Openpgpkey(d) => RData::OPENPGPKEY(OPENPGPKEY::new(d.clone())),
        MRData::Null(d) => RData::NULL(NULL::with(d.clone())),
        MRData::Unknown { code, data } => RData::Unknown { code: RecordType::from(*code), rdata: NULL::with(data.clone()) },
        MRData::Svcb { .. } => return None,
        MRData::Dnskey { rtype, flags, alg, key, proto } => match *rtype {
            T_DNSKEY => RData::DNSSEC(DNSSECRData::DNSKEY(DNSKEY::with_flags(*flags, PublicKeyBuf::new(key.clone(), Algorithm::from_u8(*alg))))),
            T_CDNSKEY => RData::DNSSEC(DNSSECRData::CDNSKEY(CDNSKEY::with_flags(*flags, Some(Algorithm::from_u8(*alg)), key.clone()))),
            _ => {
                #[allow(deprecated)]
                use hickory_proto::dnssec::rdata::key::{KeyTrust, KeyUsage, Protocol, UpdateScope};
                RData::DNSSEC(DNSSECRData::KEY(KEY::new(
                    KeyTrust::from(*flags),
                    KeyUsage::from(*flags),
                    UpdateScope::from(*flags),
                    Protocol::from(*proto),
                    Algorithm::from_u8(*alg),
                    key.clone(),
                )))
            }
        },
        MRData::Ds { rtype, tag, alg, digtype, digest } => {
            if *rtype == T_DS {
                RData::DNSSEC(DNSSECRData::DS(DS::new(*tag, Algorithm::from_u8(*alg), DigestType::from(*digtype), digest.clone())))
            } else {
                RData::DNSSEC(DNSSECRData::CDS(CDS::new(*tag, Some(Algorithm::from_u8(*alg)), DigestType::from(*digtype), digest.clone())))
            }
        }
        MRData::Nsec { next, types: t } => RData::DNSSEC(DNSSECRData::NSEC(NSEC::new(name(next), types(t)))),
        MRData::Nsec3 { hash_alg, flags, iterations, salt, next, types: t } => RData::DNSSEC(DNSSECRData::NSEC3(NSEC3::new(
            Nsec3HashAlgorithm::try_from(*hash_alg).ok()?,
            flags & 1 != 0,
            *iterations,
            salt.clone(),
            next.clone(),
            types(t),
        ))),
        MRData::Nsec3param { hash_alg, flags, iterations, salt } => RData::DNSSEC(DNSSECRData::NSEC3PARAM(NSEC3PARAM::new(
            Nsec3HashAlgorithm::try_from(*hash_alg).ok()?,
            flags & 1 != 0,
            *iterations,
            salt.clone(),
        ))),
        MRData::Rrsig { rtype, covered, alg, labels, ottl, exp, inc, tag, signer, sig } => {
            if *rtype != T_RRSIG {
                return None;
            }
            RData::DNSSEC(DNSSECRData::RRSIG(RRSIG::from_sig(
                SigInput {
                    type_covered: RecordType::from(*covered),
                    algorithm: Algorithm::from_u8(*alg),
                    num_labels: *labels,
                    original_ttl: *ottl,
                    sig_expiration: SerialNumber::new(*exp),
                    sig_inception: SerialNumber::new(*inc),
                    key_tag: *tag,
                    signer_name: name(signer),
                },
                sig.clone(),
            )))
        }
        MRData::Tsig { .. } | MRData::Opt(_) => return None,
    })
}

pub fn tsig(d: &MRData) -> Option<TSIG> {
    if let MRData::Tsig { alg, time, fudge, mac, oid, error, other } = d {
        // the decoder maps the (relative) algorithm name through from_name; mirror that
        let mut an = name(alg);
        an.set_fqdn(false);
        Some(TSIG::new(
            TsigAlgorithm::from_name(an),
            *time,
            *fudge,
            mac.clone(),
            *oid,
            if *error == 0 { None } else { Some(rdata::tsig::TsigError::from(*error)) },
            other.clone(),
        ))
    } else {
        None
    }
}

pub fn record(r: &MRecord) -> Option<Record> {
    let mut rec = Record::from_rdata(name(&r.owner), r.ttl, rdata(&r.data)?);
    rec.dns_class = DNSClass::from(r.class);
    Some(rec)
}

pub fn edns(e: &MEdns, rcode: u16) -> Option<Edns> {
    let mut ed = Edns::new();
    ed.set_max_payload(e.payload);
    ed.set_version(e.version);
    ed.set_dnssec_ok(e.dnssec_ok);
    ed.flags_mut().z = e.z;
    ed.set_rcode_high((rcode >> 4) as u8);
    for (c, d) in &e.options {
        let opt = EdnsOption::try_from((EdnsCode::from(*c), d.as_slice())).ok()?;
        ed.options_mut().insert(opt);
    }
    Some(ed)
}

/// Some(message) if every part has a constructor path
pub fn message(m: &MMessage) -> Option<Message> {
    let mut msg = Message::new(m.id, if m.qr { MessageType::Response } else { MessageType::Query }, OpCode::from_u8(m.opcode));
    msg.metadata.authoritative = m.aa;
    msg.metadata.truncation = m.tc;
    msg.metadata.recursion_desired = m.rd;
    msg.metadata.recursion_available = m.ra;
    msg.metadata.authentic_data = m.ad;
    msg.metadata.checking_disabled = m.cd;
    msg.metadata.response_code = <ResponseCode as From<u16>>::from(m.rcode);
    for q in &m.questions {
        let mut hq = Query::new(name(&q.name), RecordType::from(q.qtype));
        hq.set_query_class(DNSClass::from(q.qclass));
        msg.add_query(hq);
    }
    for r in &m.answers {
        msg.add_answer(record(r)?);
    }
    for r in &m.authorities {
        msg.add_authority(record(r)?);
    }
    for r in &m.additionals {
        msg.add_additional(record(r)?);
    }
    if let Some(e) = &m.edns {
        msg.set_edns(edns(e, m.rcode)?);
    }
    if let Some((k, t)) = &m.tsig {
        let mut rec = Record::from_rdata(name(k), 0, tsig(t)?);
        rec.dns_class = DNSClass::ANY;
        msg.set_signature(Box::new(rec));
    }
    Some(msg)
}
