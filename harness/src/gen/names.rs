//! Name generators. A model name is a list of raw label octet strings plus the FQDN flag.

use hickory_proto::rr::Name;
use proptest::collection::vec;
use proptest::prelude::*;
use serde::{Deserialize, Serialize};

use crate::refm::canon;

#[derive(Clone, Debug, PartialEq, Eq, Hash, Serialize, Deserialize)]
pub struct MName {
    #[serde(with = "crate::core::hexvec")]
    pub labels: Vec<Vec<u8>>,
    pub fqdn: bool,
}

impl MName {
    pub fn fq(labels: Vec<Vec<u8>>) -> Self {
        Self { labels, fqdn: true }
    }
    pub fn wire_len(&self) -> usize {
        canon::wire_len(&self.labels)
    }
    pub fn show(&self) -> String {
        let mut s = canon::show(&self.labels);
        if !self.fqdn && s.ends_with('.') && !self.labels.is_empty() {
            s.pop();
        }
        if !self.fqdn && self.labels.is_empty() {
            s = "<empty-relative>".into();
        }
        s
    }
    /// build the hickory value through the public raw-bytes constructor
    pub fn to_name(&self) -> Name {
        let mut n = Name::from_labels(self.labels.iter().map(|l| l.as_slice()))
            .expect("generator only produces names within the length limits");
        n.set_fqdn(self.fqdn);
        n
    }
    pub fn from_name(n: &Name) -> Self {
        Self {
            labels: n.iter().map(|l| l.to_vec()).collect(),
            fqdn: n.is_fqdn(),
        }
    }
}

/// octets around the ASCII letter ranges and other troublemakers
const SPECIAL: &[u8] = &[
    b'.', b'\\', b'"', b' ', 0x00, 0x01, 0x09, 0x0a, 0x1f, 0x7f, 0x80, 0x81, 0xc1, 0xe1, 0xdf, 0xff, b'@', b'[', b'`',
    b'{', b'(', b')', b';', b'$', b'*', b'-', b'_', b'0', b'9', b'A', b'Z', b'a', b'z',
];

pub fn label() -> impl Strategy<Value = Vec<u8>> {
    prop_oneof![
        4 => "[a-zA-Z0-9][a-zA-Z0-9-]{0,11}".prop_map(|s| s.into_bytes()),
        1 => "_[a-z]{1,8}".prop_map(|s| s.into_bytes()),
        1 => Just(b"*".to_vec()),
        3 => vec(prop::sample::select(&b"abAB"[..]), 1..=3),
        2 => vec(any::<u8>(), 1..=8),
        2 => vec(prop::sample::select(SPECIAL), 1..=4),
        1 => vec(any::<u8>(), 50..=63),
        1 => vec(prop::sample::select(&b"aZ-9"[..]), 62..=63),
    ]
}

/// keep the longest prefix of `labels` that fits a wire name
pub fn fit(labels: Vec<Vec<u8>>, max_wire: usize) -> Vec<Vec<u8>> {
    let mut out = Vec::new();
    let mut len = 1usize;
    for l in labels {
        if l.is_empty() || l.len() > 63 {
            continue;
        }
        if len + l.len() + 1 > max_wire {
            break;
        }
        len += l.len() + 1;
        out.push(l);
    }
    out
}

/// a name whose wire length is exactly `target` (when reachable) built from `seed` labels
pub fn pack_to(seed: Vec<Vec<u8>>, target: usize, filler: u8) -> Vec<Vec<u8>> {
    let mut out = fit(seed, target);
    loop {
        let len = canon::wire_len(&out);
        let r = target - len;
        if r == 0 {
            break;
        }
        if r == 1 {
            // cannot add an empty label: grow one that still has room
            if let Some(l) = out.iter_mut().find(|l| l.len() < 63) {
                l.push(filler);
            }
            break;
        }
        let l = (r - 1).min(63);
        out.push(vec![filler; l]);
    }
    out
}

/// labels of an absolute name: mostly short, sometimes at the 255-octet boundary, sometimes
/// very many single-octet labels
pub fn labels() -> impl Strategy<Value = Vec<Vec<u8>>> {
    prop_oneof![
        10 => vec(label(), 0..=5).prop_map(|l| fit(l, 255)),
        2 => vec(label(), 0..=40).prop_map(|l| fit(l, 255)),
        2 => (vec(label(), 0..=12), 250usize..=255, any::<u8>()).prop_map(|(l, t, f)| pack_to(l, t, f)),
        1 => (vec(prop::sample::select(&b"abAB*\0"[..]), 100..=127)).prop_map(|v| v.into_iter().map(|b| vec![b]).collect()),
    ]
}

pub fn fqdn() -> impl Strategy<Value = MName> {
    labels().prop_map(MName::fq)
}

pub fn any_name() -> impl Strategy<Value = MName> {
    (labels(), prop::bool::weighted(0.8)).prop_map(|(labels, fqdn)| MName { labels, fqdn })
}

/// host-style label: letters, digits, hyphen (not leading), underscore, embedded dot, and an
/// optional leading asterisk — the alphabet C04's text clause names
pub fn host_label() -> impl Strategy<Value = Vec<u8>> {
    prop_oneof![
        6 => "[a-zA-Z0-9_][a-zA-Z0-9_-]{0,14}".prop_map(|s| s.into_bytes()),
        1 => Just(b"*".to_vec()),
        1 => "\\*[a-zA-Z0-9_-]{1,6}".prop_map(|s| s.into_bytes()),
        2 => "[a-zA-Z0-9_][a-zA-Z0-9_.-]{0,10}".prop_map(|s| s.into_bytes()),
        1 => "[a-zA-Z0-9_.][a-zA-Z0-9_.-]{61,62}".prop_map(|s| s.into_bytes()),
        // letters, digits and hyphens that happen to start with the ACE prefix: mostly not valid
        // punycode (still host-style names), and two that are
        1 => prop_oneof![
            4 => "xn--[a-z0-9][a-z0-9-]{0,8}".prop_map(|s| s.into_bytes()),
            1 => Just(b"xn--bcher-kva".to_vec()),
            1 => Just(b"xn--nxasmq6b".to_vec()),
        ],
    ]
}

pub fn host_name() -> impl Strategy<Value = MName> {
    (
        prop_oneof![
            8 => vec(host_label(), 0..=6).prop_map(|l| fit(l, 255)),
            2 => (vec(host_label(), 0..=8), 250usize..=255).prop_map(|(l, t)| pack_to(l, t, b'x')),
        ],
        prop::bool::weighted(0.7),
    )
        .prop_map(|(labels, fqdn)| MName { labels, fqdn })
}

/// how the second name of a pair is derived from the first
#[derive(Clone, Debug, Serialize, Deserialize)]
pub enum Rel {
    Same,
    CaseFlip(u64),
    Xor20NonLetter(usize),
    SetOctet(usize, u8),
    DropLabel(usize),
    InsertLabel(usize, #[serde(with = "crate::core::hexser")] Vec<u8>),
    SplitLabel(usize, usize),
    MergeLabels(usize),
    TruncateLabel(usize),
    ExtendLabel(usize, u8),
    Unrelated(#[serde(with = "crate::core::hexvec")] Vec<Vec<u8>>),
    SharedSuffix(usize, #[serde(with = "crate::core::hexvec")] Vec<Vec<u8>>),
}

pub fn rel() -> impl Strategy<Value = Rel> {
    prop_oneof![
        1 => Just(Rel::Same),
        3 => any::<u64>().prop_map(Rel::CaseFlip),
        3 => any::<usize>().prop_map(Rel::Xor20NonLetter),
        2 => (any::<usize>(), any::<u8>()).prop_map(|(i, b)| Rel::SetOctet(i, b)),
        1 => any::<usize>().prop_map(Rel::DropLabel),
        1 => (any::<usize>(), label()).prop_map(|(i, l)| Rel::InsertLabel(i, l)),
        1 => (any::<usize>(), any::<usize>()).prop_map(|(i, j)| Rel::SplitLabel(i, j)),
        1 => any::<usize>().prop_map(Rel::MergeLabels),
        1 => any::<usize>().prop_map(Rel::TruncateLabel),
        1 => (any::<usize>(), any::<u8>()).prop_map(|(i, b)| Rel::ExtendLabel(i, b)),
        2 => labels().prop_map(Rel::Unrelated),
        3 => (any::<usize>(), vec(label(), 0..=3)).prop_map(|(i, l)| Rel::SharedSuffix(i, l)),
    ]
}

fn flat_index(labels: &[Vec<u8>], i: usize) -> Option<(usize, usize)> {
    let total: usize = labels.iter().map(|l| l.len()).sum();
    if total == 0 {
        return None;
    }
    let mut k = i % total;
    for (li, l) in labels.iter().enumerate() {
        if k < l.len() {
            return Some((li, k));
        }
        k -= l.len();
    }
    None
}

/// apply a relation; the result always satisfies the name length limits
pub fn apply_rel(a: &[Vec<u8>], rel: &Rel) -> Vec<Vec<u8>> {
    let mut b: Vec<Vec<u8>> = a.to_vec();
    match rel {
        Rel::Same => {}
        Rel::CaseFlip(mask) => {
            let mut bit = 0u32;
            for l in b.iter_mut() {
                for o in l.iter_mut() {
                    if o.is_ascii_alphabetic() {
                        if (mask >> (bit % 64)) & 1 == 1 {
                            *o ^= 0x20;
                        }
                        bit += 1;
                    }
                }
            }
        }
        Rel::Xor20NonLetter(i) => {
            // flip bit 5 of an octet that is NOT an ASCII letter before or after: must differ
            let cands: Vec<(usize, usize)> = b
                .iter()
                .enumerate()
                .flat_map(|(li, l)| l.iter().enumerate().map(move |(oi, o)| (li, oi, *o)))
                .filter(|(_, _, o)| !o.is_ascii_alphabetic() && !(o ^ 0x20).is_ascii_alphabetic())
                .map(|(li, oi, _)| (li, oi))
                .collect();
            if !cands.is_empty() {
                let (li, oi) = cands[i % cands.len()];
                b[li][oi] ^= 0x20;
            }
        }
        Rel::SetOctet(i, v) => {
            if let Some((li, oi)) = flat_index(&b, *i) {
                b[li][oi] = *v;
            }
        }
        Rel::DropLabel(i) => {
            if !b.is_empty() {
                let k = i % b.len();
                b.remove(k);
            }
        }
        Rel::InsertLabel(i, l) => {
            let k = i % (b.len() + 1);
            b.insert(k, l.clone());
        }
        Rel::SplitLabel(i, j) => {
            if !b.is_empty() {
                let k = i % b.len();
                if b[k].len() >= 2 {
                    let at = 1 + j % (b[k].len() - 1);
                    let tail = b[k].split_off(at);
                    b.insert(k + 1, tail);
                }
            }
        }
        Rel::MergeLabels(i) => {
            if b.len() >= 2 {
                let k = i % (b.len() - 1);
                if b[k].len() + b[k + 1].len() <= 63 {
                    let tail = b.remove(k + 1);
                    b[k].extend(tail);
                }
            }
        }
        Rel::TruncateLabel(i) => {
            if !b.is_empty() {
                let k = i % b.len();
                if b[k].len() >= 2 {
                    b[k].pop();
                }
            }
        }
        Rel::ExtendLabel(i, v) => {
            if !b.is_empty() {
                let k = i % b.len();
                if b[k].len() < 63 {
                    b[k].push(*v);
                }
            }
        }
        Rel::Unrelated(l) => b = l.clone(),
        Rel::SharedSuffix(i, l) => {
            let keep = if b.is_empty() { 0 } else { i % (b.len() + 1) };
            let suffix = b.split_off(b.len() - keep);
            b = l.clone();
            b.extend(suffix);
        }
    }
    fit(b, 255)
}

#[derive(Clone, Debug, Serialize, Deserialize)]
pub struct NamePair {
    pub a: MName,
    pub b: MName,
}

pub fn related_pair() -> impl Strategy<Value = NamePair> {
    (labels(), rel(), prop::bool::weighted(0.85), prop::bool::weighted(0.85)).prop_map(|(a, r, fa, fb)| {
        let b = apply_rel(&a, &r);
        NamePair {
            a: MName { labels: a, fqdn: fa },
            b: MName { labels: b, fqdn: fb },
        }
    })
}

pub fn related_fq_pair() -> impl Strategy<Value = NamePair> {
    (labels(), rel()).prop_map(|(a, r)| {
        let b = apply_rel(&a, &r);
        NamePair {
            a: MName::fq(a),
            b: MName::fq(b),
        }
    })
}

#[derive(Clone, Debug, Serialize, Deserialize)]
pub struct NameTriple {
    pub a: MName,
    pub b: MName,
    pub c: MName,
}

pub fn related_fq_triple() -> impl Strategy<Value = NameTriple> {
    (labels(), rel(), rel(), any::<bool>()).prop_map(|(a, r1, r2, from_b)| {
        let b = apply_rel(&a, &r1);
        let c = apply_rel(if from_b { &b } else { &a }, &r2);
        NameTriple {
            a: MName::fq(a),
            b: MName::fq(b),
            c: MName::fq(c),
        }
    })
}

/// a small pool of related names (for sorting and for compression contexts)
pub fn related_fq_pool(max: usize) -> impl Strategy<Value = Vec<MName>> {
    (labels(), vec((rel(), any::<usize>()), 0..max)).prop_map(|(a, rels)| {
        let mut pool = vec![a];
        for (r, from) in rels {
            let base = pool[from % pool.len()].clone();
            pool.push(apply_rel(&base, &r));
        }
        pool.into_iter().map(MName::fq).collect()
    })
}
