//! Generators for model messages (`refm::wire_ref::MMessage`): every RDATA variant, name pools
//! with suffix sharing (so compression fires), size classes, EDNS / TSIG / extended rcodes.

use proptest::collection::vec;
use proptest::prelude::*;

use crate::gen::names;
use crate::refm::wire_ref::*;

type Lb = Vec<Vec<u8>>;

/// intermediate: names are indices into a per-message pool
#[derive(Clone, Debug)]
pub enum Nm {
    Pool(usize),
    Fresh(Lb),
}

fn nm() -> impl Strategy<Value = Nm> {
    prop_oneof![
        6 => any::<usize>().prop_map(Nm::Pool),
        1 => names::labels().prop_map(Nm::Fresh),
    ]
}

fn bytes(max: usize) -> impl Strategy<Value = Vec<u8>> {
    prop_oneof![
        6 => vec(any::<u8>(), 0..=max.min(24)),
        1 => vec(any::<u8>(), 0..=max),
    ]
}

fn bytes1(max: usize) -> impl Strategy<Value = Vec<u8>> {
    prop_oneof![
        6 => vec(any::<u8>(), 1..=max.min(24)),
        1 => vec(any::<u8>(), 1..=max),
    ]
}

fn charstr() -> impl Strategy<Value = Vec<u8>> {
    prop_oneof![
        5 => "[ -~]{0,20}".prop_map(|s| s.into_bytes()),
        2 => vec(any::<u8>(), 0..=12),
        1 => vec(any::<u8>(), 250..=255),
    ]
}

fn type_list() -> impl Strategy<Value = Vec<u16>> {
    let t = prop_oneof![
        6 => prop::sample::select(vec![1u16, 2, 5, 6, 12, 15, 16, 28, 33, 43, 46, 47, 48, 50, 51, 52, 64, 65, 257]),
        2 => 1u16..=300,
        1 => any::<u16>().prop_filter("type 0 is not representable in a bitmap we care about", |t| *t != 0),
    ];
    vec(t, 0..8).prop_map(|mut v| {
        v.sort();
        v.dedup();
        v
    })
}

/// SVCB parameters valid per RFC 9460: strictly increasing keys, well-formed values
fn svc_params() -> impl Strategy<Value = Vec<(u16, Vec<u8>)>> {
    (
        prop::option::weighted(0.5, vec("[a-z0-9/.-]{1,8}", 1..4)),            // alpn
        any::<bool>(),                                                        // no-default-alpn (only with alpn)
        prop::option::weighted(0.5, any::<u16>()),                            // port
        prop::option::weighted(0.4, vec(any::<[u8; 4]>(), 1..4)),             // ipv4hint
        prop::option::weighted(0.3, vec(any::<u8>(), 1..40)),                 // ech
        prop::option::weighted(0.4, vec(any::<[u8; 16]>(), 1..3)),            // ipv6hint
        prop::option::weighted(0.3, (65280u16..65535, vec(any::<u8>(), 0..10))), // private-use key
        any::<bool>(),                                                        // mandatory
    )
        .prop_map(|(alpn, nda, port, v4, ech, v6, unk, mand)| {
            let mut p: Vec<(u16, Vec<u8>)> = Vec::new();
            if let Some(a) = &alpn {
                let mut v = Vec::new();
                for id in a {
                    v.push(id.len() as u8);
                    v.extend_from_slice(id.as_bytes());
                }
                p.push((1, v));
                if nda {
                    p.push((2, vec![]));
                }
            }
            if let Some(x) = port {
                p.push((3, x.to_be_bytes().to_vec()));
            }
            if let Some(x) = v4 {
                p.push((4, x.concat()));
            }
            if let Some(x) = ech {
                p.push((5, x));
            }
            if let Some(x) = v6 {
                p.push((6, x.concat()));
            }
            if let Some((k, v)) = unk {
                p.push((k, v));
            }
            if mand && !p.is_empty() {
                // mandatory lists (sorted) keys that are present, never itself (RFC 9460 §8)
                let keys: Vec<u8> = p.iter().filter(|(k, _)| *k != 2 || true).flat_map(|(k, _)| k.to_be_bytes()).collect();
                p.insert(0, (0, keys));
            }
            p
        })
}

#[derive(Clone, Debug)]
pub enum RdSkel {
    Done(MRData),
    NameOnly(u16, Nm),
    Mx(u16, Nm),
    Soa(Nm, Nm, u32, i32, i32, i32, u32),
    Srv(u16, u16, u16, Nm),
    Naptr(u16, u16, Vec<u8>, Vec<u8>, Vec<u8>, Nm),
    Svcb(u16, u16, Nm, Vec<(u16, Vec<u8>)>),
    Nsec(Nm, Vec<u16>),
    Rrsig(u16, u16, u8, u8, u32, u32, u32, u16, Nm, Vec<u8>),
}

fn serialish() -> impl Strategy<Value = u32> {
    prop_oneof![
        3 => any::<u32>(),
        1 => prop::sample::select(vec![0u32, 1, 0x7fff_ffff, 0x8000_0000, 0xffff_ffff]),
    ]
}

fn i32ish() -> impl Strategy<Value = i32> {
    prop_oneof![
        3 => 0i32..1_000_000,
        1 => any::<i32>(),
    ]
}

pub fn rd_skel() -> impl Strategy<Value = RdSkel> {
    let simple = prop_oneof![
        4 => any::<[u8; 4]>().prop_map(|a| RdSkel::Done(MRData::A(a))),
        3 => any::<[u8; 16]>().prop_map(|a| RdSkel::Done(MRData::Aaaa(a))),
        3 => vec(charstr(), 1..4).prop_map(|t| RdSkel::Done(MRData::Txt(t))),
        1 => (charstr(), charstr()).prop_map(|(cpu, os)| RdSkel::Done(MRData::Hinfo { cpu, os })),
        2 => (any::<bool>(), 0u8..2, "[a-zA-Z0-9]{1,15}", bytes(60)).prop_map(|(crit, low, tag, value)| {
            RdSkel::Done(MRData::Caa { flags: if crit { 0x80 } else { 0 } | low, tag: tag.into_bytes(), value })
        }),
        // a CERT without certificate octets is rejected by hickory's decoder (RFC 4398 gives no meaning to it)
        1 => (any::<u16>(), any::<u16>(), any::<u8>(), bytes1(80)).prop_map(|(cert_type, key_tag, alg, data)| {
            RdSkel::Done(MRData::Cert { cert_type, key_tag, alg, data })
        }),
        1 => (serialish(), 0u16..4, type_list()).prop_map(|(serial, flags, types)| RdSkel::Done(MRData::Csync { serial, flags, types })),
        1 => (any::<u8>(), any::<u8>(), bytes(64)).prop_map(|(alg, fptype, fp)| RdSkel::Done(MRData::Sshfp { alg, fptype, fp })),
        2 => (any::<bool>(), any::<u8>(), any::<u8>(), any::<u8>(), bytes(64)).prop_map(|(s, usage, selector, matching, data)| {
            RdSkel::Done(MRData::Tlsa { rtype: if s { T_SMIMEA } else { T_TLSA }, usage, selector, matching, data })
        }),
        1 => bytes1(80).prop_map(|d| RdSkel::Done(MRData::Openpgpkey(d))),
        1 => bytes1(80).prop_map(|d| RdSkel::Done(MRData::Null(d))),
        2 => (prop::sample::select(vec![3u16, 4, 7, 8, 9, 14, 17, 18, 99, 256, 32768, 65280, 65534]), bytes1(60))
            .prop_map(|(code, data)| RdSkel::Done(MRData::Unknown { code, data })),
        2 => (prop::sample::select(vec![T_DNSKEY, T_DNSKEY, T_CDNSKEY]), any::<u16>(), prop::sample::select(vec![5u8, 7, 8, 10, 13, 14, 15, 16, 1, 253]), bytes1(70))
            .prop_map(|(rtype, flags, alg, key)| RdSkel::Done(MRData::Dnskey { rtype, flags, proto: 3, alg, key })),
        1 => (0u16..0x4000, any::<u8>(), prop::sample::select(vec![5u8, 8, 13, 15]), bytes1(40)).prop_map(|(f, proto, alg, key)| {
            // KEY: reserved bits (2, 4-5, 8-11) and the extended-flags bit (3) must be zero (RFC 2535 §3.1.2)
            let flags = (f | ((proto as u16 & 3) << 14)) & !0b0011_1100_1111_0000;
            RdSkel::Done(MRData::Dnskey { rtype: T_KEY, flags, proto: 3, alg, key })
        }),
        2 => (any::<bool>(), any::<u16>(), prop::sample::select(vec![5u8, 8, 13, 14, 15]), prop::sample::select(vec![1u8, 2, 4]), bytes1(48))
            .prop_map(|(c, tag, alg, digtype, digest)| RdSkel::Done(MRData::Ds { rtype: if c { T_CDS } else { T_DS }, tag, alg, digtype, digest })),
        2 => (0u8..2, any::<u16>(), bytes(8), bytes1(20), type_list()).prop_map(|(flags, iterations, salt, next, types)| {
            RdSkel::Done(MRData::Nsec3 { hash_alg: 1, flags, iterations, salt, next, types })
        }),
        1 => (0u8..2, any::<u16>(), bytes(8)).prop_map(|(flags, iterations, salt)| RdSkel::Done(MRData::Nsec3param { hash_alg: 1, flags, iterations, salt })),
    ];
    let named = prop_oneof![
        4 => (prop::sample::select(vec![T_NS, T_CNAME, T_PTR, T_ANAME]), nm()).prop_map(|(t, n)| RdSkel::NameOnly(t, n)),
        3 => (any::<u16>(), nm()).prop_map(|(p, n)| RdSkel::Mx(p, n)),
        3 => (nm(), nm(), serialish(), i32ish(), i32ish(), i32ish(), any::<u32>()).prop_map(|(m, r, s, a, b, c, d)| RdSkel::Soa(m, r, s, a, b, c, d)),
        2 => (any::<u16>(), any::<u16>(), any::<u16>(), nm()).prop_map(|(a, b, c, n)| RdSkel::Srv(a, b, c, n)),
        1 => (any::<u16>(), any::<u16>(), "[a-zA-Z0-9]{0,4}", charstr(), charstr(), nm())
            .prop_map(|(o, p, f, s, r, n)| RdSkel::Naptr(o, p, f.into_bytes(), s, r, n)),
        2 => (any::<bool>(), any::<u16>(), nm(), svc_params()).prop_map(|(h, p, n, ps)| RdSkel::Svcb(if h { T_HTTPS } else { T_SVCB }, p, n, ps)),
        2 => (nm(), type_list()).prop_map(|(n, t)| RdSkel::Nsec(n, t)),
        2 => (
            prop::sample::select(vec![T_RRSIG, T_RRSIG, T_RRSIG, T_SIG]),
            prop::sample::select(vec![1u16, 2, 6, 15, 16, 28, 47, 48]),
            prop::sample::select(vec![5u8, 8, 13, 14, 15]),
            0u8..8,
            any::<u32>(),
            serialish(),
            serialish(),
            any::<u16>(),
            nm(),
            bytes1(70)
        )
            .prop_map(|(rt, cov, alg, lab, ottl, exp, inc, tag, n, sig)| RdSkel::Rrsig(rt, cov, alg, lab, ottl, exp, inc, tag, n, sig)),
    ];
    prop_oneof![3 => simple, 2 => named]
}

#[derive(Clone, Debug)]
pub struct RecSkel {
    pub owner: Nm,
    pub class: u16,
    pub ttl: u32,
    pub data: RdSkel,
}

fn class() -> impl Strategy<Value = u16> {
    prop_oneof![
        12 => Just(1u16),
        1 => prop::sample::select(vec![3u16, 4, 254, 255]),
        1 => any::<u16>(),
    ]
}

fn ttl() -> impl Strategy<Value = u32> {
    prop_oneof![
        4 => 0u32..100_000,
        1 => prop::sample::select(vec![0u32, 1, 0x7fff_ffff, 0x8000_0000, 0xffff_ffff]),
        1 => any::<u32>(),
    ]
}

pub fn rec_skel() -> impl Strategy<Value = RecSkel> {
    (nm(), class(), ttl(), rd_skel()).prop_map(|(owner, class, ttl, data)| RecSkel { owner, class, ttl, data })
}

fn resolve(pool: &[Lb], n: &Nm) -> Lb {
    match n {
        Nm::Pool(i) => pool[i % pool.len()].clone(),
        Nm::Fresh(l) => l.clone(),
    }
}

pub fn resolve_rd(pool: &[Lb], d: &RdSkel) -> MRData {
    match d {
        RdSkel::Done(d) => d.clone(),
        RdSkel::NameOnly(t, n) => MRData::NameOnly { rtype: *t, name: resolve(pool, n) },
        RdSkel::Mx(p, n) => MRData::Mx { pref: *p, name: resolve(pool, n) },
        RdSkel::Soa(m, r, s, a, b, c, d) => MRData::Soa {
            mname: resolve(pool, m),
            rname: resolve(pool, r),
            serial: *s,
            refresh: *a,
            retry: *b,
            expire: *c,
            minimum: *d,
        },
        RdSkel::Srv(a, b, c, n) => MRData::Srv { prio: *a, weight: *b, port: *c, target: resolve(pool, n) },
        RdSkel::Naptr(o, p, f, s, r, n) => MRData::Naptr {
            order: *o,
            pref: *p,
            flags: f.clone(),
            services: s.clone(),
            regexp: r.clone(),
            replacement: resolve(pool, n),
        },
        RdSkel::Svcb(t, p, n, ps) => MRData::Svcb { rtype: *t, prio: *p, target: resolve(pool, n), params: ps.clone() },
        RdSkel::Nsec(n, t) => MRData::Nsec { next: resolve(pool, n), types: t.clone() },
        RdSkel::Rrsig(rt, cov, alg, lab, ottl, exp, inc, tag, n, sig) => MRData::Rrsig {
            rtype: *rt,
            covered: *cov,
            alg: *alg,
            labels: *lab,
            ottl: *ottl,
            exp: *exp,
            inc: *inc,
            tag: *tag,
            signer: resolve(pool, n),
            sig: sig.clone(),
        },
    }
}

pub fn resolve_rec(pool: &[Lb], r: &RecSkel) -> MRecord {
    MRecord { owner: resolve(pool, &r.owner), class: r.class, ttl: r.ttl, data: resolve_rd(pool, &r.data) }
}

/// SIG (type 24) is accepted by hickory in the additional section only (RFC 2931 SIG(0) placement);
/// elsewhere the same skeleton becomes an RRSIG
fn no_sig(mut r: MRecord) -> MRecord {
    if let MRData::Rrsig { rtype, .. } = &mut r.data {
        *rtype = T_RRSIG;
    }
    r
}

fn edns_options() -> impl Strategy<Value = Vec<(u16, Vec<u8>)>> {
    // well-formed option payloads for the codes hickory models, arbitrary octets for others
    let opt = prop_oneof![
        2 => vec(prop::sample::select(vec![5u8, 7, 8, 10, 13, 14, 15]), 0..5).prop_map(|mut v| {
            v.sort();
            v.dedup();
            (5u16, v) // DAU
        }),
        2 => (any::<[u8; 4]>(), 0u8..=32, 0u8..=32).prop_map(|(a, sp, sc)| {
            // client subnet (RFC 7871): family 1, address truncated to the source prefix, trailing bits zero
            let n = (sp as usize).div_ceil(8);
            let mut addr = a[..n].to_vec();
            if sp % 8 != 0 && n > 0 {
                addr[n - 1] &= 0xffu8 << (8 - sp % 8);
            }
            let mut v = vec![0, 1, sp, sc];
            v.extend(addr);
            (8u16, v)
        }),
        1 => vec(any::<u8>(), 8..=8).prop_map(|v| (10u16, v)),  // cookie (client only)
        1 => vec(any::<u8>(), 16..=40).prop_map(|v| (10u16, v)), // cookie (client + server)
        1 => vec(any::<u8>(), 0..12).prop_map(|v| (3u16, v)),   // NSID
        1 => vec(any::<u8>(), 0..30).prop_map(|v| (12u16, v)),  // padding
        2 => (prop::sample::select(vec![4u16, 9, 11, 13, 14, 15, 16, 100, 65001, 65534]), vec(any::<u8>(), 0..12)).prop_map(|(c, v)| (c, v)),
    ];
    vec(opt, 0..4).prop_map(|mut v| {
        // one option per code (duplicates are legal on the wire but hickory's OPT is set-like; keep the
        // exact-round-trip domain to distinct codes)
        let mut seen = std::collections::BTreeSet::new();
        v.retain(|(c, _)| seen.insert(*c));
        v
    })
}

fn edns() -> impl Strategy<Value = MEdns> {
    (
        prop_oneof![Just(512u16), Just(1232), Just(4096), Just(65535), 512u16..=65535],
        prop_oneof![8 => Just(0u8), 1 => Just(1u8), 1 => any::<u8>()],
        any::<bool>(),
        prop_oneof![8 => Just(0u16), 1 => 0u16..0x8000],
        edns_options(),
    )
        .prop_map(|(payload, version, dnssec_ok, z, options)| MEdns { payload, version, dnssec_ok, z, options })
}

fn tsig_rd() -> impl Strategy<Value = (Nm, MRData)> {
    (
        nm(),
        // the registered names in their registered spelling, and in other letter cases (names a decoder
        // must hand back as they came: TSIG RDATA is not compressible and its names keep their case)
        prop::sample::select(vec![
            "hmac-sha256",
            "hmac-sha384",
            "hmac-sha512",
            "hmac-sha1",
            "hmac-md5.sig-alg.reg.int",
            "x-unknown-alg",
            "HMAC-SHA256",
            "Hmac-Sha512",
            "hmac-SHA384",
            "HMAC-MD5.SIG-ALG.REG.INT",
            "hmac-sha224",
            "HMAC-SHA1",
            "X-Unknown-Alg",
        ]),
        0u64..(1 << 48),
        any::<u16>(),
        bytes(64),
        any::<u16>(),
        prop_oneof![4 => Just(0u16), 1 => prop::sample::select(vec![16u16, 17, 18, 22])],
        prop_oneof![4 => Just(vec![]), 1 => vec(any::<u8>(), 6..=6)],
    )
        .prop_map(|(k, alg, time, fudge, mac, oid, error, other)| {
            let alg: Lb = alg.split('.').map(|l| l.as_bytes().to_vec()).collect();
            (k, MRData::Tsig { alg, time, fudge, mac, oid, error, other })
        })
}

#[derive(Clone, Copy, Debug, PartialEq, Eq)]
pub enum SizeClass {
    Small,
    Medium,
    ManyNames,
    Large,
    /// a few records, some with very large opaque RDATA, so that later names sit beyond offset 0x3FFF
    /// while the compression-candidate table is still nearly empty
    BigRdata,
}

fn section(sc: SizeClass, which: u8) -> BoxedStrategy<Vec<RecSkel>> {
    match (sc, which) {
        (SizeClass::Small, _) => vec(rec_skel(), 0..3).boxed(),
        (SizeClass::Medium, _) => vec(rec_skel(), 0..10).boxed(),
        (SizeClass::ManyNames, 1) => vec(rec_skel(), 60..140).boxed(),
        (SizeClass::ManyNames, _) => vec(rec_skel(), 0..6).boxed(),
        (SizeClass::Large, 1) => vec(rec_skel(), 300..700).boxed(),
        (SizeClass::Large, _) => vec(rec_skel(), 0..20).boxed(),
        (SizeClass::BigRdata, 1) => (
            vec(rec_skel(), 0..3),
            vec((nm(), proptest::collection::vec(any::<u8>(), 6_000..20_000)), 1..3),
            vec(rec_skel(), 1..8),
        )
            .prop_map(|(mut a, big, c)| {
                for (owner, data) in big {
                    a.push(RecSkel { owner, class: 1, ttl: 60, data: RdSkel::Done(MRData::Null(data)) });
                }
                a.extend(c);
                a
            })
            .boxed(),
        (SizeClass::BigRdata, _) => vec(rec_skel(), 0..6).boxed(),
    }
}

pub fn message_with(sc: SizeClass, update: bool) -> impl Strategy<Value = MMessage> {
    let header = (
        any::<u16>(),
        any::<bool>(),
        if update { Just(5u8).boxed() } else { prop_oneof![8 => Just(0u8), 1 => prop::sample::select(vec![1u8, 2, 4]), 1 => prop::sample::select(vec![3u8, 6, 7, 15])].boxed() },
        any::<[bool; 7]>(),
        prop_oneof![8 => 0u16..16, 2 => prop::sample::select(vec![16u16, 17, 18, 22, 23, 255, 256, 4095])],
    );
    let pool = names::related_fq_pool(7).prop_map(|p| p.into_iter().map(|m| m.labels).collect::<Vec<Lb>>());
    let questions = vec((nm(), prop::sample::select(vec![1u16, 2, 5, 6, 15, 16, 28, 33, 43, 48, 255, 252, 65]), class()), 0..=2);
    (
        header,
        pool,
        questions,
        section(sc, 1),
        section(sc, 2),
        section(sc, 3),
        prop::option::weighted(0.5, edns()),
        any::<usize>(),
        prop::option::weighted(0.2, tsig_rd()),
    )
        .prop_map(|((id, qr, opcode, fl, rcode), pool, qs, an, au, ad, edns, edns_pos, tsig)| {
            // extended rcodes are only representable with EDNS
            let rcode = if edns.is_none() { rcode & 0xf } else { rcode };
            MMessage {
                id,
                qr,
                opcode,
                aa: fl[0],
                tc: fl[1],
                rd: fl[2],
                ra: fl[3],
                z: false,
                ad: fl[5],
                cd: fl[6],
                rcode,
                questions: qs.iter().map(|(n, t, c)| MQuestion { name: resolve(&pool, n), qtype: *t, qclass: *c }).collect(),
                answers: an.iter().map(|r| no_sig(resolve_rec(&pool, r))).collect(),
                authorities: au.iter().map(|r| no_sig(resolve_rec(&pool, r))).collect(),
                additionals: ad.iter().map(|r| resolve_rec(&pool, r)).collect(),
                edns_pos: edns_pos % (ad.len() + 1),
                edns,
                tsig: tsig.map(|(k, t)| (resolve(&pool, &k), t)),
            }
        })
}

pub fn message() -> impl Strategy<Value = MMessage> {
    prop_oneof![
        10 => message_with(SizeClass::Small, false),
        6 => message_with(SizeClass::Medium, false),
        1 => message_with(SizeClass::ManyNames, false),
    ]
}

pub fn message_large() -> impl Strategy<Value = MMessage> {
    message_with(SizeClass::Large, false)
}

/// a single record with names from a small pool (for record/RDATA-level checks)
pub fn record() -> impl Strategy<Value = MRecord> {
    (names::related_fq_pool(3), rec_skel()).prop_map(|(p, r)| {
        let pool: Vec<Lb> = p.into_iter().map(|m| m.labels).collect();
        resolve_rec(&pool, &r)
    })
}
