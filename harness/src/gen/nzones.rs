//! Zones over a small name universe (DESIGN §5.1) for C08/C09: exhaustive enumerators for the
//! depth-2 universe and proptest strategies for the depth-3 one. Zones travel as text
//! (`refm::zonemodel::Zone::parse`) so that replay files are readable and enumerated cases are
//! cheap to clone.

use std::sync::Arc;

use proptest::prelude::*;
use serde::{Deserialize, Deserializer, Serialize, Serializer};

/// cheap-to-clone text (zone text, relative query name)
#[derive(Clone, Debug, PartialEq, Eq, Hash)]
pub struct ZText(pub Arc<str>);

impl ZText {
    pub fn new(s: &str) -> Self {
        ZText(Arc::from(s))
    }
    pub fn as_str(&self) -> &str {
        &self.0
    }
}

impl Serialize for ZText {
    fn serialize<S: Serializer>(&self, s: S) -> Result<S::Ok, S::Error> {
        s.serialize_str(&self.0)
    }
}

impl<'de> Deserialize<'de> for ZText {
    fn deserialize<D: Deserializer<'de>>(d: D) -> Result<Self, D::Error> {
        Ok(ZText(Arc::from(String::deserialize(d)?.as_str())))
    }
}

// ---------------------------------------------------------------------------------------------
// depth-2 universe, enumerated

/// owner names of the depth-2 universe, relative to the apex (labels {a, b, *})
pub const U2_NAMES: [&str; 12] = [
    "a", "b", "*", "a.a", "b.a", "*.a", "a.b", "b.b", "*.b", "a.*", "b.*", "*.*",
];

/// roles an owner can take: host, alias, insecure delegation, secure delegation; wildcard
/// owners (leftmost label `*`) are never delegations
pub fn roles(name: &str) -> &'static [&'static str] {
    if name.starts_with('*') {
        &["A", "CNAME"]
    } else {
        &["A", "CNAME", "NS", "NS+DS"]
    }
}

/// query names of the exhaustive sweeps, relative to the apex (`@` = apex): every universe name
/// plus names just outside it — between (`c`, `!` sorts before `*`), below (depth 3), under a
/// delegation, under a wildcard, under a non-existent parent
pub const Q2_NAMES: [&str; 32] = [
    "@", "a", "b", "*", "c", "!", "a.a", "b.a", "*.a", "c.a", "a.b", "b.b", "*.b", "c.b", "a.*", "b.*", "*.*",
    "c.*", "a.c", "*.c", "a.a.a", "*.a.a", "a.b.a", "*.b.a", "a.*.a", "*.*.a", "a.c.a", "*.c.a", "a.a.*", "*.a.*",
    "a.a.b", "*.a.b",
];

pub const APEX2: &str = "example.";

/// all zones over `names` with at most `max_nodes` owners below the apex, every owner in every
/// role; deterministic order (by number of nodes, then lexicographic by construction)
pub fn enum_zones(apex: &str, names: &[&str], max_nodes: usize) -> Vec<ZText> {
    fn rec(
        apex: &str,
        names: &[&str],
        start: usize,
        left: usize,
        cur: &mut Vec<String>,
        out: &mut Vec<(usize, String)>,
    ) {
        out.push((cur.len(), format!("{apex} |{}", cur.iter().map(|s| format!(" {s}")).collect::<String>())));
        if left == 0 {
            return;
        }
        for i in start..names.len() {
            for r in roles(names[i]) {
                cur.push(format!("{}:{}", names[i], r));
                rec(apex, names, i + 1, left - 1, cur, out);
                cur.pop();
            }
        }
    }
    let mut out = Vec::new();
    rec(apex, names, 0, max_nodes, &mut Vec::new(), &mut out);
    out.sort_by(|a, b| a.0.cmp(&b.0).then_with(|| a.1.cmp(&b.1)));
    out.into_iter().map(|(_, s)| ZText::new(&s)).collect()
}

// ---------------------------------------------------------------------------------------------
// depth-3 universe, sampled

const APEXES: [&str; 3] = ["example.", "ex.test.", "z."];

fn owner_label() -> impl Strategy<Value = &'static str> {
    prop_oneof![4 => Just("a"), 4 => Just("b"), 3 => Just("*")]
}

fn owner_name() -> impl Strategy<Value = String> {
    prop_oneof![
        3 => proptest::collection::vec(owner_label(), 1),
        4 => proptest::collection::vec(owner_label(), 2),
        3 => proptest::collection::vec(owner_label(), 3),
    ]
    .prop_map(|l| l.join("."))
}

fn role_for(name: &str, pick: u8) -> &'static str {
    if name.starts_with('*') {
        ["A", "CNAME", "TXT", "A+TXT", "A", "MX"][(pick % 6) as usize]
    } else {
        ["A", "CNAME", "NS", "NS+DS", "A+TXT", "TXT", "A", "NS", "A+MX", "NS+DS"][(pick % 10) as usize]
    }
}

/// a random zone over labels {a, b, *} to depth 3 with 1..=max_nodes owners: hosts, aliases,
/// wildcards at several depths, empty non-terminals (owners at depth 2/3 without their parents),
/// delegations with and without DS, glue / occluded names below cuts (whatever lands there)
pub fn zone_text(max_nodes: usize) -> impl Strategy<Value = ZText> {
    (
        0usize..APEXES.len(),
        0u8..4,
        proptest::collection::vec((owner_name(), any::<u8>()), 1..=max_nodes),
    )
        .prop_map(|(apex, apex_extra, nodes)| {
            let mut s = format!("{} |", APEXES[apex]);
            match apex_extra {
                0 => s.push_str(" @:A"),
                1 => s.push_str(" @:TXT"),
                _ => {}
            }
            let mut seen: Vec<String> = Vec::new();
            for (n, pick) in nodes {
                if seen.contains(&n) {
                    continue;
                }
                s.push_str(&format!(" {}:{}", n, role_for(&n, pick)));
                seen.push(n);
            }
            ZText::new(&s)
        })
}

fn query_label() -> impl Strategy<Value = &'static str> {
    prop_oneof![4 => Just("a"), 4 => Just("b"), 3 => Just("*"), 2 => Just("c"), 1 => Just("!"), 1 => Just("~")]
}

/// how the query name is derived
#[derive(Clone, Debug, Serialize, Deserialize)]
pub enum QPick {
    /// the apex
    Apex,
    /// a free name of depth 1..=4 over {a, b, *, c, !, ~}
    Free(String),
    /// derived from the `idx`-th owner of the zone (mod number of owners): the owner itself,
    /// its parent, a child, a sibling, a grandchild
    Rel { idx: u8, op: u8, l1: String, l2: String },
}

pub fn qpick() -> impl Strategy<Value = QPick> {
    prop_oneof![
        1 => Just(QPick::Apex),
        8 => prop_oneof![
                3 => proptest::collection::vec(query_label(), 1),
                4 => proptest::collection::vec(query_label(), 2),
                3 => proptest::collection::vec(query_label(), 3),
                1 => proptest::collection::vec(query_label(), 4),
            ].prop_map(|l| QPick::Free(l.join("."))),
        10 => (any::<u8>(), 0u8..6, query_label(), query_label()).prop_map(|(idx, op, l1, l2)| QPick::Rel {
                idx, op, l1: l1.to_string(), l2: l2.to_string() }),
    ]
}

/// resolve a `QPick` against the relative owner names of a zone; result is relative (`@` = apex)
pub fn resolve_q(pick: &QPick, owners_rel: &[String]) -> String {
    match pick {
        QPick::Apex => "@".into(),
        QPick::Free(s) => s.clone(),
        QPick::Rel { idx, op, l1, l2 } => {
            if owners_rel.is_empty() {
                return l1.clone();
            }
            let o = &owners_rel[*idx as usize % owners_rel.len()];
            let parent = o.split_once('.').map(|(_, p)| p.to_string());
            match op {
                0 => o.clone(),
                1 => parent.unwrap_or_else(|| "@".into()),
                2 => format!("{l1}.{o}"),
                3 => match parent {
                    Some(p) => format!("{l1}.{p}"),
                    None => l1.clone(),
                },
                4 => format!("{l2}.{l1}.{o}"),
                _ => match parent {
                    Some(p) => format!("{l2}.{l1}.{p}"),
                    None => format!("{l2}.{l1}"),
                },
            }
        }
    }
}

pub fn qtype_pick() -> impl Strategy<Value = u16> {
    // A, TXT, NS, DS, CNAME, MX
    prop_oneof![5 => Just(1u16), 3 => Just(16u16), 2 => Just(2u16), 3 => Just(43u16), 1 => Just(5u16), 1 => Just(15u16)]
}

/// deterministic mask stream derived from the case (xorshift64*)
pub struct MaskRng(pub u64);

impl MaskRng {
    pub fn next(&mut self) -> u64 {
        let mut x = self.0 | 1;
        x ^= x >> 12;
        x ^= x << 25;
        x ^= x >> 27;
        self.0 = x;
        x.wrapping_mul(0x2545F4914F6CDD1D)
    }
}

/// the subsets of a k-element record list that a sampled case evaluates: all non-empty subsets
/// when k <= 6, otherwise all singletons, the full set, all "full minus one", and `extra`
/// pseudo-random masks
pub fn masks_for(k: usize, seed: u64, extra: usize) -> Vec<u32> {
    if k == 0 {
        return vec![];
    }
    let full: u32 = if k >= 32 { u32::MAX } else { (1u32 << k) - 1 };
    if k <= 6 {
        return (1..=full).collect();
    }
    let mut m: Vec<u32> = Vec::new();
    for i in 0..k {
        m.push(1 << i);
        m.push(full & !(1 << i));
    }
    m.push(full);
    let mut r = MaskRng(seed ^ 0x9E3779B97F4A7C15);
    for _ in 0..extra {
        let x = (r.next() as u32) & full;
        // bias towards small subsets (proofs need 1..3 records)
        let y = if r.next() & 1 == 0 { x & (r.next() as u32) } else { x };
        if y != 0 {
            m.push(y);
        }
    }
    m.sort_unstable();
    m.dedup();
    m
}
