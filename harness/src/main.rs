//! vcheck — one binary, one subcommand per property (c01 … c20).
#![allow(clippy::type_complexity)]

#[macro_use]
pub mod core;
pub mod clock;
pub mod checks;

use core::{Cli, Tier};

fn usage() -> ! {
    eprintln!("usage: vcheck <C01..C20> [--tier quick|thorough] [--replay FILE] [--sub NAME] [--scale F] [--strict] [--no-evidence]");
    std::process::exit(2)
}

fn main() {
    core::install_panic_hook();
    let mut args = std::env::args().skip(1);
    let Some(id) = args.next() else { usage() };
    let id = id.to_uppercase();
    let mut cli = Cli {
        tier: match std::env::var("VERIF_TIER").ok().as_deref() {
            Some("thorough") => Tier::Thorough,
            _ => Tier::Quick,
        },
        seed: std::env::var("VERIF_SEED")
            .ok()
            .and_then(|s| s.trim().parse::<i128>().ok())
            .map(|v| v as u64)
            .unwrap_or(0),
        replay: None,
        only_sub: None,
        scale: 1.0,
        strict: false,
        no_evidence: false,
    };
    while let Some(a) = args.next() {
        match a.as_str() {
            "--tier" => {
                cli.tier = match args.next().as_deref() {
                    Some("quick") => Tier::Quick,
                    Some("thorough") => Tier::Thorough,
                    _ => usage(),
                }
            }
            "--replay" => cli.replay = Some(args.next().unwrap_or_else(|| usage()).into()),
            "--sub" => cli.only_sub = Some(args.next().unwrap_or_else(|| usage())),
            "--scale" => cli.scale = args.next().and_then(|s| s.parse().ok()).unwrap_or_else(|| usage()),
            "--seed" => cli.seed = args.next().and_then(|s| s.parse().ok()).unwrap_or_else(|| usage()),
            "--strict" => cli.strict = true,
            "--no-evidence" => cli.no_evidence = true,
            _ => usage(),
        }
    }
    // global watchdog: a stuck run is inconclusive (exit 2), never a violation
    let limit = match cli.tier {
        Tier::Quick => 30 * 60,
        Tier::Thorough => 8 * 3600,
    };
    std::thread::spawn(move || {
        let t0 = core::real_nanos();
        loop {
            std::thread::sleep(std::time::Duration::from_secs(5));
            if (core::real_nanos() - t0) / 1_000_000_000 > limit {
                eprintln!("INCONCLUSIVE: global watchdog after {limit}s");
                std::process::exit(2);
            }
        }
    });
    let Some(check) = checks::build(&id) else {
        eprintln!("unknown or unclaimed property {id}");
        std::process::exit(2)
    };
    let code = core::run_check(check, &cli);
    std::process::exit(code);
}
pub mod gen;
pub mod refm;
pub mod sim;
