//! vcheck — one binary, one subcommand per property (c01 … c20).

use vcheck::core::{self, Cli, Tier};
use vcheck::{checks, clock};

/// Interposed `clock_gettime`: identity by default; while a simulation on *this thread* is in
/// virtual mode, the monotonic and realtime clocks follow the simulation (see clock.rs).
///
/// # Safety
/// Called by libc users with a valid `timespec` pointer, as the libc function it replaces.
#[no_mangle]
pub unsafe extern "C" fn clock_gettime(clk: libc::clockid_t, ts: *mut libc::timespec) -> libc::c_int {
    if let Some((secs, nanos)) = clock::virtual_timespec(clk) {
        if !ts.is_null() {
            (*ts).tv_sec = secs;
            (*ts).tv_nsec = nanos;
        }
        return 0;
    }
    libc::syscall(libc::SYS_clock_gettime, clk as libc::c_long, ts) as libc::c_int
}

/// Interposed `getrandom(2)` (see detrand.rs): identity unless a check on this thread asked for a
/// deterministic stream. The `getrandom` crate finds it with dlsym(RTLD_DEFAULT), build.rs exports it.
///
/// # Safety
/// Same contract as the libc function it replaces.
#[no_mangle]
pub unsafe extern "C" fn getrandom(buf: *mut libc::c_void, len: libc::size_t, flags: libc::c_uint) -> libc::ssize_t {
    if vcheck::detrand::fill(buf, len) {
        return len as libc::ssize_t;
    }
    libc::syscall(libc::SYS_getrandom, buf, len, flags) as libc::ssize_t
}

/// the simulated runtime is only sound if std's clocks really go through the interposer
fn interposition_self_test() -> bool {
    let _g = clock::VirtualClock::start(1_700_000_000);
    let a = std::time::Instant::now();
    clock::set_virtual_nanos(5_000_000_000);
    let b = std::time::Instant::now();
    let wall = std::time::SystemTime::now().duration_since(std::time::UNIX_EPOCH).map(|d| d.as_secs()).unwrap_or(0);
    b.duration_since(a) == std::time::Duration::from_secs(5) && wall == 1_700_000_005
}

fn usage() -> ! {
    eprintln!("usage: vcheck <C01..C20> [--tier quick|thorough] [--replay FILE] [--sub NAME] [--scale F] [--strict] [--no-evidence]");
    std::process::exit(2)
}

fn main() {
    core::install_panic_hook();
    if !interposition_self_test() {
        eprintln!("INCONCLUSIVE: clock_gettime interposition is not effective in this build");
        std::process::exit(2);
    }
    let mut args = std::env::args().skip(1);
    let Some(id) = args.next() else { usage() };
    let id = id.to_uppercase();
    let mut cli = Cli {
        tier: match std::env::var("VERIF_TIER").ok().as_deref() {
            Some("thorough") => Tier::Thorough,
            _ => Tier::Quick,
        },
        seed: std::env::var("VERIF_SEED")
            .ok()
            .and_then(|s| s.trim().parse::<i128>().ok())
            .map(|v| v as u64)
            .unwrap_or(0),
        replay: None,
        only_sub: None,
        scale: 1.0,
        strict: false,
        no_evidence: false,
    };
    while let Some(a) = args.next() {
        match a.as_str() {
            "--tier" => {
                cli.tier = match args.next().as_deref() {
                    Some("quick") => Tier::Quick,
                    Some("thorough") => Tier::Thorough,
                    _ => usage(),
                }
            }
            "--replay" => cli.replay = Some(args.next().unwrap_or_else(|| usage()).into()),
            "--sub" => cli.only_sub = Some(args.next().unwrap_or_else(|| usage())),
            "--scale" => cli.scale = args.next().and_then(|s| s.parse().ok()).unwrap_or_else(|| usage()),
            "--seed" => cli.seed = args.next().and_then(|s| s.parse().ok()).unwrap_or_else(|| usage()),
            "--strict" => cli.strict = true,
            "--no-evidence" => cli.no_evidence = true,
            _ => usage(),
        }
    }
    // global watchdog: a stuck run is inconclusive (exit 2), never a violation
    let limit = match cli.tier {
        Tier::Quick => 30 * 60,
        Tier::Thorough => 8 * 3600,
    };
    std::thread::spawn(move || {
        let t0 = core::real_nanos();
        loop {
            std::thread::sleep(std::time::Duration::from_secs(5));
            if (core::real_nanos() - t0) / 1_000_000_000 > limit {
                eprintln!("INCONCLUSIVE: global watchdog after {limit}s");
                std::process::exit(2);
            }
        }
    });
    let Some(check) = checks::build(&id) else {
        eprintln!("unknown or unclaimed property {id}");
        std::process::exit(2)
    };
    let code = core::run_check(check, &cli);
    std::process::exit(code);
}
