fn main() {
    // detrand.rs: the `getrandom` crate finds libc's getrandom with dlsym(RTLD_DEFAULT, ..);
    // exporting our definition from the executable makes that lookup resolve to it.
    println!("cargo:rustc-link-arg-bins=-Wl,--export-dynamic-symbol=getrandom");
    println!("cargo:rerun-if-changed=build.rs");
}
